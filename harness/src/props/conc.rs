//! `conc` model family (C03): real threads log concurrently through the real `FileLogWriter`;
//! the observed global order of lines is handed to the `Conc` model (is it an interleaving the
//! model accepts?) and, as a sequential history, to the `Flw` model (linearizability: does the
//! sequential model reproduce the directory?).
use crate::props::flw::{builder, list_dir, parse_cfg, parse_spec, read_file, stamp_to_local, CfgP, Flw, SpecP};
use crate::props::flwgen::{gen_spec, NAMINGS};
use crate::props::header_answer;
use crate::util::{hex, tokens, unhex, Rng};
use crate::Ctx;
use flexi_logger::writers::LogWriter;
use flexi_logger::{DeferredNow, WriteMode};
use log::Record;
use std::sync::atomic::{AtomicU64, Ordering};
use std::sync::Arc;

static NOISE: AtomicU64 = AtomicU64::new(0);

fn install_noise(seed: u64) {
    NOISE.store(seed | 1, Ordering::SeqCst);
    flexi_logger::verif_hooks::set_point_handler(Some(Arc::new(|name| {
        if !(name.starts_with("sync.") || name.starts_with("async.") || name == "write.before") {
            return;
        }
        // xorshift on a shared word: cheap, racy on purpose
        let mut x = NOISE.load(Ordering::Relaxed);
        x ^= x << 13;
        x ^= x >> 7;
        x ^= x << 17;
        NOISE.store(x, Ordering::Relaxed);
        match x % 8 {
            0 | 1 => std::thread::yield_now(),
            2 => std::thread::sleep(std::time::Duration::from_micros(x % 200)),
            _ => {}
        }
    })));
}

/// a log argument whose `Display` logs another record through the same writer
struct Nested<'a> {
    w: &'a flexi_logger::writers::ArcFileLogWriter,
    inner: String,
    outer: String,
}
impl std::fmt::Display for Nested<'_> {
    fn fmt(&self, f: &mut std::fmt::Formatter<'_>) -> std::fmt::Result {
        LogWriter::write(&**self.w, &mut DeferredNow::new(), &Record::builder().level(log::Level::Info).args(format_args!("{}", self.inner)).build()).unwrap();
        write!(f, "{}", self.outer)
    }
}

/// child: `fvh child concstd <mode> <out|err> <seed> <file: one thread per line, comma-separated hex lines>`
/// — the threads log their lines concurrently through one `Logger` to stdout/stderr
pub fn child_concstd(args: &[String]) {
    let mode = crate::props::stdout::mode_of(&args[0]);
    let mut l = flexi_logger::Logger::with(flexi_logger::LogSpecification::trace()).format(crate::props::flw::raw_format).write_mode(mode);
    l = match args[1].as_str() {
        "out" => l.log_to_stdout(),
        "err" => l.log_to_stderr(),
        // file output, every record duplicated to stderr (the captured stream)
        _ => l.log_to_file(flexi_logger::FileSpec::default().directory(std::path::Path::new(&args[3]).parent().unwrap().join(format!("dup-{}", std::process::id()))).basename("d").suppress_timestamp())
              .duplicate_to_stderr(flexi_logger::Duplicate::All).format_for_stderr(crate::props::flw::raw_format),
    };
    let (boxed, handle) = l.build().unwrap();
    let boxed: Arc<Box<dyn log::Log>> = Arc::new(boxed);
    install_noise(args[2].parse().unwrap_or(1));
    // (the programs come in a file, one thread per line: they can be larger than an argument list)
    let text = std::fs::read_to_string(&args[3]).expect("program file");
    let threads: Vec<Vec<Vec<u8>>> = text.lines().map(|t| t.split(',').filter(|h| !h.is_empty()).map(|h| unhex(h).unwrap()).collect()).collect();
    let barrier = Arc::new(std::sync::Barrier::new(threads.len()));
    let mut joins = Vec::new();
    for ls in threads {
        let b = boxed.clone();
        let barrier = barrier.clone();
        joins.push(std::thread::spawn(move || {
            barrier.wait();
            for l in ls {
                let payload = String::from_utf8(l[..l.len() - 1].to_vec()).unwrap();
                b.log(&Record::builder().level(log::Level::Info).target("t").args(format_args!("{}", payload)).build());
            }
        }));
    }
    for j in joins { let _ = j.join(); }
    handle.shutdown();
    if args[1] == "dup" { let _ = std::fs::remove_dir_all(std::path::Path::new(&args[3]).parent().unwrap().join(format!("dup-{}", std::process::id()))); }
    std::process::exit(0);
}

/// the observed stream as a global order of `(thread, line)` plus the first thing that is wrong
fn observe(threads: &[Vec<Vec<u8>>], all: &[u8]) -> (Vec<String>, Vec<Vec<u8>>, Option<String>) {
    let mut obs: Vec<String> = Vec::new();
    let mut obs_lines: Vec<Vec<u8>> = Vec::new();
    let mut next: Vec<usize> = vec![0; threads.len()];
    let mut bad: Option<String> = None;
    for raw in all.split_inclusive(|b| *b == b'\n') {
        let found = threads.iter().enumerate().find_map(|(t, ls)| ls.iter().position(|l| l.as_slice() == raw).map(|k| (t, k)));
        match found {
            Some((t, k)) => {
                if next[t] != k && bad.is_none() {
                    bad = Some(format!("thread {t}: line #{k} appears where #{} was expected (per-thread order / duplicate / loss)", next[t]));
                }
                next[t] = k + 1;
                obs.push(format!("{t}:{k}"));
                obs_lines.push(raw.to_vec());
            }
            None => {
                if bad.is_none() { bad = Some(format!("a line in the output is not one of the logged lines (torn or foreign): {:?}", String::from_utf8_lossy(raw))); }
            }
        }
    }
    for (t, ls) in threads.iter().enumerate() {
        if next[t] != ls.len() && bad.is_none() {
            bad = Some(format!("thread {t}: {} of {} lines found in the output", next[t], ls.len()));
        }
    }
    (obs, obs_lines, bad)
}

pub fn line_for(t: usize, k: usize, len: usize) -> Vec<u8> {
    let mut s = format!("t{t}-{k}:");
    while s.len() + 1 < len {
        s.push((b'a' + ((t * 7 + k) % 26) as u8) as char);
    }
    s.push('\n');
    s.into_bytes()
}

pub fn execute(ctx: &mut Ctx, lines: &[String]) -> Vec<(Vec<String>, Vec<String>)> {
    let case_id = tokens(&lines[0])[2..].join(" ");
    let mut eff: Vec<String> = Vec::new();
    let mut ans: Vec<String> = Vec::new();
    let mut threads: Vec<Vec<Vec<u8>>> = Vec::new();
    let mut nested: Vec<Vec<bool>> = Vec::new();
    let mut failing_before: Vec<Vec<bool>> = Vec::new();
    let mut mode = "sync".to_string();
    let mut spec: Option<SpecP> = None;
    let mut cfg: Option<CfgP> = None;
    let mut wmode: Option<WriteMode> = None;
    let mut lin_case: Option<(Vec<String>, Vec<String>)> = None;
    for line in lines {
        let t = tokens(line);
        match t.as_slice() {
            ["CASE", ..] => { eff.push(line.clone()); ans.push(header_answer(line)); }
            ["END"] => { eff.push(line.clone()); ans.push("END".into()); }
            ["MODE", m, pool, msg] => {
                mode = m.to_string();
                if *m == "async" {
                    wmode = Some(WriteMode::AsyncWith { pool_capa: pool.parse().unwrap(), message_capa: msg.parse().unwrap(), flush_interval: std::time::Duration::from_secs(0) });
                }
                eff.push(line.clone());
                ans.push("ok".into());
            }
            ["THREAD", tid, ls @ ..] => {
                let tid: usize = tid.parse().unwrap();
                while threads.len() <= tid { threads.push(vec![]); }
                // `R<hex>`: this line is logged from INSIDE the formatting of the thread's next line
                // (a `Display` argument that logs: the recursion fallback of the writer)
                while nested.len() <= tid { nested.push(vec![]); }
                // `F<hex>`: before this line the thread logs a record whose FORMAT FUNCTION fails after it has
                // produced part of its output (asynchronous file mode: the record is not accepted and
                // nothing of it may show up — neither as a line nor inside a later record)
                while failing_before.len() <= tid { failing_before.push(vec![]); }
                failing_before[tid] = ls.iter().map(|h| h.starts_with('F')).collect();
                let ls: Vec<&str> = ls.iter().map(|h| h.trim_start_matches('F')).collect();
                nested[tid] = ls.iter().map(|h| h.starts_with('R')).collect();
                threads[tid] = ls.iter().map(|h| unhex(h.trim_start_matches('R')).unwrap()).collect();
                eff.push(format!("THREAD {tid} {}", ls.iter().map(|h| h.trim_start_matches('R')).collect::<Vec<_>>().join(" ")));
                ans.push("ok".into());
            }
            ["SPEC", rest @ ..] => { spec = Some(parse_spec(rest)); }
            ["CFG", rest @ ..] => { cfg = Some(parse_cfg(rest)); }
            // RUN <noise-seed>: execute the threads for real; rewritten into the observed order
            ["RUN", seed] => {
                let seed: u64 = seed.parse().unwrap();
                let spec = spec.clone().expect("SPEC");
                let cfg = cfg.clone().expect("CFG");
                let dir = ctx.work.join(format!("conc-{}-{}", std::process::id(), ctx.case_no));
                let _ = std::fs::remove_dir_all(&dir);
                std::fs::create_dir_all(&dir).unwrap();
                crate::props::flw::ensure_error_channel(ctx);
                flexi_logger::verif_hooks::clear_creation_table();
                let now = 20240101120000u64;
                flexi_logger::verif_hooks::set_virtual_now(Some(stamp_to_local(now)));
                let (w, handle) = builder(&dir, &spec, &cfg, false, wmode).try_build_with_handle().expect("build");
                install_noise(seed);
                let barrier = Arc::new(std::sync::Barrier::new(threads.len()));
                let mut joins = Vec::new();
                for (tid, ls) in threads.iter().enumerate() {
                    let w = w.clone();
                    let ls = ls.clone();
                    let flags = nested.get(tid).cloned().unwrap_or_default();
                    let fails = failing_before.get(tid).cloned().unwrap_or_default();
                    let barrier = barrier.clone();
                    joins.push(std::thread::Builder::new().name(format!("worker{tid}")).spawn(move || {
                        barrier.wait();
                        let text = |l: &Vec<u8>| String::from_utf8(l[..l.len() - 1].to_vec()).unwrap();
                        let mut i = 0;
                        while i < ls.len() {
                            if fails.get(i).copied().unwrap_or(false) {
                                let _ = LogWriter::write(&*w, &mut DeferredNow::new(), &Record::builder().level(log::Level::Info).args(format_args!("{}{}", crate::props::flw::FAILFMT, i)).build());
                            }
                            if flags.get(i).copied().unwrap_or(false) && i + 1 < ls.len() {
                                let arg = Nested { w: &w, inner: text(&ls[i]), outer: text(&ls[i + 1]) };
                                LogWriter::write(&*w, &mut DeferredNow::new(), &Record::builder().level(log::Level::Info).args(format_args!("{}", arg)).build()).unwrap();
                                i += 2;
                            } else {
                                let payload = text(&ls[i]);
                                LogWriter::write(&*w, &mut DeferredNow::new(), &Record::builder().level(log::Level::Info).args(format_args!("{}", payload)).build()).unwrap();
                                i += 1;
                            }
                        }
                    }).unwrap());
                }
                let mut panicked = false;
                for j in joins { panicked |= j.join().is_err(); }
                w.shutdown();
                flexi_logger::verif_hooks::set_point_handler(None);
                drop(handle);
                drop(w);
                // observation: files in reading order, split into lines
                let f = Flw { dir: dir.clone(), spec: spec.clone(), cfg: cfg.clone(), w: None, mode: wmode, bg_cleanup: false, foreign: vec![], moved: 0, old_current_tokens: vec![], moved_names: vec![], foreign_content: Default::default(), via_logger: false, lg: None, errchan: Default::default(), truncating: false };
                let order = f.reading_order();
                let mut all: Vec<u8> = Vec::new();
                for n in &order { all.extend(read_file(&dir.join(n))); }
                let mut obs: Vec<String> = Vec::new();
                let mut obs_lines: Vec<Vec<u8>> = Vec::new();
                let mut next: Vec<usize> = vec![0; threads.len()];
                let mut bad: Option<String> = None;
                for raw in all.split_inclusive(|b| *b == b'\n') {
                    // oracle: the line is one intact logged line
                    let found = threads.iter().enumerate().find_map(|(t, ls)| ls.iter().position(|l| l.as_slice() == raw).map(|k| (t, k)));
                    match found {
                        Some((t, k)) => {
                            if next[t] != k && bad.is_none() {
                                bad = Some(format!("thread {t}: line #{k} appears where #{} was expected (per-thread order / duplicate / loss)", next[t]));
                            }
                            next[t] = k + 1;
                            obs.push(format!("{t}:{k}"));
                            obs_lines.push(raw.to_vec());
                        }
                        None => {
                            if bad.is_none() { bad = Some(format!("a line in the output is not one of the logged lines (torn or foreign): {:?}", String::from_utf8_lossy(raw))); }
                        }
                    }
                }
                for (t, ls) in threads.iter().enumerate() {
                    if next[t] != ls.len() && bad.is_none() {
                        bad = Some(format!("thread {t}: {} of {} lines found in the output", next[t], ls.len()));
                    }
                }
                if panicked && bad.is_none() { bad = Some("a logging thread panicked".into()); }
                ctx.report.count(&format!("run.{mode}"));
                ctx.report.add("lines", obs.len() as u64);
                ctx.report.add("files", order.len() as u64);
                if order.len() > 1 { ctx.report.nontrivial_case(lines); }
                if let Some(b) = &bad {
                    ctx.report.fail(&case_id, "concurrent-lines", &format!("{b}; files {order:?}"));
                }
                eff.push(format!("OBS {}", obs.join(" ")));
                ans.push(if bad.is_none() { "ok".into() } else { format!("reject {}", bad.unwrap()) });
                // linearizability: the same order as a sequential history of the Flw model
                let mut lc: Vec<String> = vec![format!("CASE flw {} lin", case_id)];
                let mut la: Vec<String> = vec![format!("CASE {} lin", case_id)];
                let o = |x: &Option<String>| x.as_ref().map_or("_".to_string(), |v| format!("s{}", crate::util::hexs(v)));
                lc.push(format!("SPEC {} {} {} {} {}", crate::util::hexs(&spec.basename), o(&spec.discr), o(&spec.suffix), o(&spec.cur), spec.fmt));
                la.push("ok".into());
                let rot = cfg.rot.as_ref().map_or("-".to_string(), |r| format!("{};{};{};{}", r.max_size.map_or("_".into(), |x| x.to_string()), r.age.map_or("_".into(), |x| x.to_string()), r.naming, r.cleanup.map_or("never".into(), |(k, m)| format!("{k},{m}"))));
                lc.push(format!("CFG {rot} 0 {} 0 {}", cfg.cap.map_or("_".into(), |c| c.to_string()), spec.suffix.is_some() as u8));
                la.push("ok".into());
                for l in &obs_lines {
                    lc.push(format!("W {} {now} -", hex(l)));
                    la.push("ok".into());
                }
                lc.push("SHUT".into());
                la.push("ok".into());
                lc.push("SNAP".into());
                let names = list_dir(&dir, &[]);
                la.push(if names.is_empty() { "-".into() } else { names.iter().map(|n| format!("{}:{}", crate::util::hexs(n), hex(&read_file(&dir.join(n))))).collect::<Vec<_>>().join(" ") });
                lc.push("END".into());
                la.push("END".into());
                lin_case = Some((lc, la));
                flexi_logger::verif_hooks::set_virtual_now(None);
                let _ = std::fs::remove_dir_all(&dir);
            }
            // RUNSTD <out|err> <buf:N|_> <noise-seed>: the same programs through one Logger to stdout /
            // stderr in a child process whose stream is captured; rewritten into the observed order
            ["RUNSTD", target, cap, seed] => {
                let m = if mode == "async" {
                    match wmode { Some(WriteMode::AsyncWith { pool_capa, message_capa, .. }) => format!("async:{pool_capa}:{message_capa}"), _ => "async:5:100".into() }
                } else if *cap == "_" { "direct".to_string() } else { format!("buf:{cap}") };
                let exe = std::env::current_exe().unwrap();
                let targs: Vec<String> = threads.iter().map(|ls| ls.iter().map(|l| hex(l)).collect::<Vec<_>>().join(",")).collect();
                std::fs::create_dir_all(&ctx.work).unwrap();
                let pf = ctx.work.join(format!("concstd-{}-{}.txt", std::process::id(), ctx.case_no));
                std::fs::write(&pf, targs.join("\n") + "\n").unwrap();
                let o = std::process::Command::new(exe).arg("child").arg("concstd").arg(&m).arg(target).arg(seed).arg(&pf).output().expect("child");
                let _ = std::fs::remove_file(&pf);
                let all = if *target == "out" { o.stdout } else { o.stderr };      // (`dup`: the duplicates on stderr)
                let (obs, _lines, mut bad) = observe(&threads, &all);
                if !o.status.success() && bad.is_none() { bad = Some(format!("the child ended with {:?}", o.status)); }
                ctx.report.count(&format!("runstd.{}.{target}", m.split(':').next().unwrap()));
                ctx.report.add("lines", obs.len() as u64);
                ctx.report.nontrivial_case(lines);
                if let Some(b) = &bad {
                    ctx.report.fail(&case_id, "concurrent-lines", &format!("{b}; mode {m}, output {target}"));
                }
                eff.push(format!("OBS {}", obs.join(" ")));
                ans.push(if bad.is_none() { "ok".into() } else { format!("reject {}", bad.unwrap()) });
            }
            _ => { eff.push(line.clone()); ans.push(format!("bad-op {line}")); }
        }
    }
    if ctx.report.samples.len() < 3 {
        ctx.report.samples.push(eff.join(" | "));
    }
    let mut out = vec![(eff, ans)];
    if let Some(l) = lin_case { out.push(l); }
    out
}

pub fn gen_c03(tier: &str, seed: u64) -> Vec<Vec<String>> {
    let mut root = Rng::new(seed ^ 0xC03);
    let n = if tier == "thorough" { 1200 } else { 60 };
    let mut cases = Vec::new();
    for k in 0..n {
        let mut r = root.fork();
        let mut c = vec![format!("CASE conc C03 {k}")];
        let naming = *r.pick(&NAMINGS);
        let (spec, has_suffix) = gen_spec(&mut r, naming);
        let nthreads = r.range(2, 8) as usize;
        let max_size = *r.pick(&[30u64, 100, 400, 2000]);
        let (mode, cap) = match r.below(4) {
            0 => ("sync".to_string(), None),
            1 => ("sync".to_string(), Some(*r.pick(&[16u64, 64, 8192]))),
            _ => ("async".to_string(), None),
        };
        let (pool, msg) = (*r.pick(&[1u64, 2, 5, 50]), *r.pick(&[0u64, 8, 30, 200]));
        c.push(format!("MODE {mode} {pool} {msg}"));
        for t in 0..nthreads {
            let nl = r.range(3, if tier == "thorough" { 60 } else { 25 }) as usize;
            let recursive = r.chance(1, 3);
            let long = r.chance(1, 3);
            // asynchronous file output: now and then a record whose format function fails half-way
            let failfmt = mode == "async" && k % 3 != 2 && !recursive && r.chance(1, 2);
            let ls: Vec<String> = (0..nl).map(|i| {
                // now and then a record far above every buffer size the crate keeps between records
                let len = if long && r.chance(1, 40) { *r.pick(&[9_000usize, 20_000, 70_000]) } else { *r.pick(&[8usize, 12, 20, 35, 64, 130]) };
                let h = hex(&line_for(t, i, len));
                if recursive && i + 1 < nl && r.chance(1, 3) { format!("R{h}") } else if failfmt && r.chance(1, 6) { format!("F{h}") } else { h }
            }).collect();
            // now and then a record whose whole text is one letter — among them the letters the
            // asynchronous writers use as in-band control messages (what tells a record from them is
            // its line ending)
            let mut ls = ls;
            if t < 3 && r.chance(1, 3) {
                let pos = r.below(ls.len() as u64 + 1) as usize;
                ls.insert(pos, hex(&[[b'F', b'S', b'A'][t], b'\n']));
            }
            c.push(format!("THREAD {t} {}", ls.join(" ")));
        }
        if k % 3 == 2 {
            // stdout / stderr as output (a child process whose stream is captured); no nested logging
            // here (known finding C10-recursion-buffered-stdout)
            for l in c.iter_mut() { if l.starts_with("THREAD ") { *l = l.replace(" R", " "); } }
            let target = r.pick_s(&["out", "err", "dup", "dup"]);
            if target == "dup" {
                // duplication to stderr: many short-lived threads whose records fill the format buffer
                // exactly (its initial capacity and the sizes it grows to)
                c.retain(|l| !l.starts_with("THREAD "));
                for t in 0..(r.range(16, 40) as usize) {
                    let ls: Vec<String> = (0..r.range(3, 6) as usize).map(|i| hex(&line_for(t, i, *r.pick(&[201usize, 201, 401, 606, 801, 64])))).collect();
                    c.push(format!("THREAD {t} {}", ls.join(" ")));
                }
            }
            c.push(format!("RUNSTD {target} {} {}", cap.map_or("_".into(), |x| x.to_string()), r.next() % 1_000_000));
            c.push("END".into());
            cases.push(c);
            continue;
        }
        c.push(spec);
        c.push(format!("CFG {};_;{};never 0 {} 0 {}", max_size, naming, cap.map_or("_".into(), |x| x.to_string()), has_suffix as u8));
        c.push(format!("RUN {}", r.next() % 1_000_000));
        c.push("END".into());
        cases.push(c);
    }
    cases
}
