//! `spec` model family: log specification, handle operations, routing.
//! Executor (protocol lines -> real flexi_logger) + oracles + generators for C02, C05, C17.
use crate::props::header_answer;
use crate::util::{hexs, tokens, unhexs, Rng};
use crate::Ctx;
use flexi_logger::writers::LogWriter;
use flexi_logger::{DeferredNow, LogSpecBuilder, LogSpecification, Logger, LoggerHandle};
use log::{Level, LevelFilter, Log, Record};
use std::collections::HashMap;
use std::panic::{catch_unwind, AssertUnwindSafe};
use std::sync::{Arc, Mutex};

pub fn level(n: u64) -> Level {
    match n {
        1 => Level::Error,
        2 => Level::Warn,
        3 => Level::Info,
        4 => Level::Debug,
        _ => Level::Trace,
    }
}
pub fn lf(n: u64) -> LevelFilter {
    match n {
        0 => LevelFilter::Off,
        1 => LevelFilter::Error,
        2 => LevelFilter::Warn,
        3 => LevelFilter::Info,
        4 => LevelFilter::Debug,
        _ => LevelFilter::Trace,
    }
}
pub fn lfn(l: LevelFilter) -> u64 {
    l as u64
}

type Sink = Arc<Mutex<Vec<(String, u64, String)>>>;

pub struct RecWriter {
    pub name: String,
    pub ceiling: LevelFilter,
    pub sink: Sink,
}
impl LogWriter for RecWriter {
    fn write(&self, _now: &mut DeferredNow, record: &Record) -> std::io::Result<()> {
        self.sink.lock().unwrap().push((
            self.name.clone(),
            record.level() as u64,
            record.args().to_string(),
        ));
        Ok(())
    }
    fn flush(&self) -> std::io::Result<()> {
        Ok(())
    }
    fn max_log_level(&self) -> LevelFilter {
        self.ceiling
    }
}

/// structured filter list `n<hex>:lvl,_:lvl` -> Vec<(Option<name>, lvl)>
pub fn parse_filters(s: &str) -> Option<Vec<(Option<String>, u64)>> {
    if s == "-" {
        return Some(vec![]);
    }
    let mut v = Vec::new();
    for part in s.split(',') {
        let (n, l) = part.split_once(':')?;
        let l: u64 = l.parse().ok()?;
        if n == "_" {
            v.push((None, l));
        } else {
            v.push((Some(unhexs(&n[1..])?), l));
        }
    }
    Some(v)
}
pub fn filters_str(fs: &[(Option<String>, u64)]) -> String {
    if fs.is_empty() {
        return "-".into();
    }
    fs.iter()
        .map(|(n, l)| match n {
            None => format!("_:{l}"),
            Some(n) => format!("n{}:{l}", hexs(n)),
        })
        .collect::<Vec<_>>()
        .join(",")
}
fn spec_filters(s: &LogSpecification) -> Vec<(Option<String>, u64)> {
    s.module_filters()
        .iter()
        .map(|m| (m.module_name.clone(), lfn(m.level_filter)))
        .collect()
}
fn spec_str(s: &LogSpecification) -> String {
    format!(
        "{} {}",
        filters_str(&spec_filters(s)),
        match s.text_filter() {
            None => "_".to_string(),
            Some(r) => format!("r{}", hexs(r.as_str())),
        }
    )
}

/// Declarative reading of C02: level of the longest specified name that is a prefix of the
/// target, else the default level, else off. `None` if the set is outside the property's
/// quantifier (a name twice, or two defaults).
pub fn spec_level(fs: &[(Option<String>, u64)], target: &str) -> Option<u64> {
    for (i, a) in fs.iter().enumerate() {
        for b in &fs[i + 1..] {
            if a.0 == b.0 {
                return None;
            }
        }
    }
    let mut best: Option<(usize, u64)> = None;
    for (n, l) in fs {
        if let Some(n) = n {
            if target.starts_with(n.as_str()) {
                match best {
                    Some((len, _)) if len >= n.len() => {}
                    _ => best = Some((n.len(), *l)),
                }
            }
        }
    }
    if let Some((_, l)) = best {
        return Some(l);
    }
    for (n, l) in fs {
        if n.is_none() {
            return Some(*l);
        }
    }
    Some(0)
}

struct Abstract {
    // intended structured content of each spec id (None = unknown / outside quantifier)
    intended: HashMap<String, Option<(Vec<(Option<String>, u64)>, Option<String>)>>,
    // abstract stack machine for C05: active + saved (ids of intended specs)
    active: Option<String>,
    stack: Vec<Option<String>>,
}

struct Forward;
impl flexi_logger::filter::LogLineFilter for Forward {
    fn write(&self, now: &mut flexi_logger::DeferredNow, record: &log::Record, w: &dyn flexi_logger::filter::LogLineWriter) -> std::io::Result<()> {
        w.write(now, record)
    }
}

struct St {
    linefilter: bool,
    writers: Vec<(String, u64)>,
    kinds: HashMap<String, String>,
    flw_len: HashMap<String, u64>,
    flw_paths: HashMap<String, std::path::PathBuf>,
    syslog_socks: HashMap<String, std::net::UdpSocket>,
    dir: std::path::PathBuf,
    specs: HashMap<String, LogSpecification>,
    logger: Option<(Box<dyn Log>, LoggerHandle)>,
    sink: Sink,
    err_path: std::path::PathBuf,
    abs: Abstract,
    last_parse_id: u64,
    pending_note: Option<(bool, Vec<(Option<String>, u64)>, Option<String>)>,
    c12: Option<C12>,
}

/// controlled threads for C12: each runs one `set_new_spec` call and parks at the hook point
/// between the replacement of the spec and the end of the call
struct C12 {
    ctl: Arc<(Mutex<HashMap<u64, (bool, bool, bool)>>, std::sync::Condvar)>, // tid -> (at_updated, released, done)
    joins: HashMap<u64, std::thread::JoinHandle<Option<flexi_logger::LoggerHandle>>>,
    /// the handle clones of the threads that pushed (every clone has its own stack of saved specs)
    clones: HashMap<u64, flexi_logger::LoggerHandle>,
    submitted: Vec<String>,
}
impl C12 {
    fn new() -> Self {
        let ctl: Arc<(Mutex<HashMap<u64, (bool, bool, bool)>>, std::sync::Condvar)> = Arc::new((Mutex::new(HashMap::new()), std::sync::Condvar::new()));
        let c2 = ctl.clone();
        flexi_logger::verif_hooks::set_point_handler(Some(Arc::new(move |name| {
            let tname = std::thread::current().name().unwrap_or("").to_string();
            if name == "spec.enter" {
                // threads started by CENTER park here, BEFORE they ask for the lock
                let Some(tid) = tname.strip_prefix("c12e-").and_then(|x| x.parse::<u64>().ok()) else { return };
                let (m, cv) = &*c2;
                let mut g = m.lock().unwrap();
                g.entry(tid + 1000).or_insert((false, false, false)).0 = true;
                cv.notify_all();
                while !g.get(&(tid + 1000)).unwrap().1 {
                    g = cv.wait(g).unwrap();
                }
                return;
            }
            if name != "spec.updated" {
                return;
            }
            let Some(tid) = tname.strip_prefix("c12-").or_else(|| tname.strip_prefix("c12e-")).and_then(|x| x.parse::<u64>().ok()) else { return };
            let (m, cv) = &*c2;
            let mut g = m.lock().unwrap();
            g.entry(tid).or_insert((false, false, false)).0 = true;
            cv.notify_all();
            while !g.get(&tid).unwrap().1 {
                g = cv.wait(g).unwrap();
            }
        })));
        C12 { ctl, joins: HashMap::new(), clones: HashMap::new(), submitted: vec![] }
    }
    fn wait_updated(&self, tid: u64, ms: u64) -> bool {
        let (m, cv) = &*self.ctl;
        let g = m.lock().unwrap();
        let (g, _) = cv.wait_timeout_while(g, std::time::Duration::from_millis(ms), |st| !st.get(&tid).map_or(false, |x| x.0)).unwrap();
        g.get(&tid).map_or(false, |x| x.0)
    }
    /// is some call parked inside the critical section (holding the write lock)?
    fn lock_held(&self) -> bool {
        let (m, _) = &*self.ctl;
        m.lock().unwrap().iter().any(|(t, st)| *t < 1000 && st.0 && !st.1)
    }
    /// waits for `tid` to reach its parking point inside the critical section. "blocked" is only
    /// reported while another call really holds the lock; otherwise the call is on its way and
    /// gets all the time it needs (a loaded machine must not turn into a verdict)
    fn wait_arrival(&self, tid: u64) -> bool {
        {
            // a call still parked in front of the lock (CENTER without CGO) is not on its way
            let (m, _) = &*self.ctl;
            if m.lock().unwrap().get(&(tid + 1000)).is_some_and(|st| st.0 && !st.1) { return false; }
        }
        if self.wait_updated(tid, 60) { return true; }
        let t0 = std::time::Instant::now();
        while !self.lock_held() && t0.elapsed().as_secs() < 10 {
            if self.wait_updated(tid, 20) { return true; }
            // the call has returned without ever reaching the parking point: nothing to wait for
            if self.joins.get(&tid).is_some_and(|j| j.is_finished()) { return self.wait_updated(tid, 0); }
        }
        self.wait_updated(tid, 0)
    }
    fn release(&self, tid: u64) {
        let (m, cv) = &*self.ctl;
        m.lock().unwrap().entry(tid).or_insert((false, false, false)).1 = true;
        cv.notify_all();
    }
    /// a new call of the same thread id starts with a clean slate
    fn reset(&self, tid: u64) {
        let (m, _) = &*self.ctl;
        let mut g = m.lock().unwrap();
        g.remove(&tid);
        g.remove(&(tid + 1000));
    }
    fn join(&mut self, tid: u64) {
        if let Some(j) = self.joins.remove(&tid) {
            if let Ok(Some(h)) = j.join() {
                if let Some(old) = self.clones.insert(tid, h) { std::mem::forget(old); }
            }
        }
    }
    fn finish_all(&mut self) {
        let tids: Vec<u64> = self.joins.keys().copied().collect();
        for t in &tids {
            self.release(*t + 1000);
            self.release(*t);
        }
        for t in tids { self.join(t); }
        // dropping a clone would shut the writers down
        for (_, h) in self.clones.drain() { std::mem::forget(h); }
        flexi_logger::verif_hooks::set_point_handler(None);
    }
}

fn err_count(p: &std::path::Path, needle: &str) -> usize {
    std::fs::read_to_string(p)
        .map(|s| s.matches(needle).count())
        .unwrap_or(0)
}

fn build_spec(fs: &[(Option<String>, u64)], rx: Option<&str>) -> LogSpecification {
    // the same specification through the different public construction routes (chosen by the content,
    // so that a case replays identically): builder from nothing / `LogSpecBuilder::new()` (which starts
    // with default=off) / `From<LevelFilter>` / modules taken over from another specification;
    // `build*` (borrowing) or `finalize*` (consuming)
    let route = (fs.iter().map(|f| f.1).sum::<u64>() + fs.len() as u64) % 4;
    let add = |b: &mut LogSpecBuilder, part: &[(Option<String>, u64)]| {
        for (n, l) in part {
            match n {
                None => { b.default(lf(*l)); }
                Some(n) => { b.module(n, lf(*l)); }
            }
        }
    };
    let has_default = fs.iter().any(|f| f.0.is_none());
    if route == 2 && rx.is_none() && fs.len() == 1 && has_default {
        return LogSpecification::from(lf(fs[0].1));
    }
    let mut b = if route == 1 && has_default { LogSpecBuilder::new() } else { LogSpecBuilder::from_module_filters(&[]) };
    if route == 3 && fs.len() >= 2 {
        let (first, rest) = fs.split_at(fs.len() / 2);
        let mut b0 = LogSpecBuilder::from_module_filters(&[]);
        add(&mut b0, first);
        b.insert_modules_from(b0.build());
        add(&mut b, rest);
    } else {
        add(&mut b, fs);
    }
    match (rx, route % 2 == 1) {
        (None, false) => b.build(),
        (None, true) => b.finalize(),
        (Some(r), false) => b.build_with_textfilter(Some(regex::Regex::new(r).unwrap())),
        (Some(r), true) => b.finalize_with_textfilter(regex::Regex::new(r).unwrap()),
    }
}

fn toml_text(s: &LogSpecification) -> String {
    let mut buf = Vec::new();
    s.to_toml(&mut buf).unwrap();
    String::from_utf8(buf).unwrap()
}

const GRID_LEVELS: [u64; 5] = [1, 2, 3, 4, 5];

pub fn execute(ctx: &mut Ctx, lines: &[String]) -> Vec<String> {
    let case_id = tokens(&lines[0])[2..].join(" ");
    let prop = tokens(&lines[0])[2].to_string();
    let err_path = ctx.work.join(format!("errchan-{}.txt", std::process::id()));
    let _ = std::fs::remove_file(&err_path);
    let dir = ctx.work.join(format!("spec-{}-{}", std::process::id(), ctx.case_no));
    let mut st = St {
        linefilter: false,
        kinds: HashMap::new(),
        flw_len: HashMap::new(),
        flw_paths: HashMap::new(),
        syslog_socks: HashMap::new(),
        dir: dir.clone(),
        writers: vec![],
        specs: HashMap::new(),
        logger: None,
        sink: Arc::new(Mutex::new(Vec::new())),
        err_path,
        abs: Abstract {
            intended: HashMap::new(),
            active: None,
            stack: vec![],
        },
        last_parse_id: 0,
        pending_note: None,
        c12: None,
    };
    let mut out = Vec::with_capacity(lines.len());
    let mut nontrivial = false;
    // duplication cases run in a child process whose stderr/stdout are captured
    let dup_ops: Vec<String> = lines.iter().filter(|l| l.starts_with("DUP")).cloned().collect();
    let mut dup_result: Option<(String, String)> = None;
    if !dup_ops.is_empty() {
        std::fs::create_dir_all(&dir).unwrap();
        let exe = std::env::current_exe().unwrap();
        // `NOTE dupcapture`: the logger runs in WriteMode::SupportCapture (duplicates go through eprintln!/println!)
        let mut dup_ops = dup_ops;
        if lines.iter().any(|l| l == "NOTE dupcapture") { dup_ops.insert(0, "DUPCAPTURE".to_string()); }
        let o = std::process::Command::new(exe).arg("child").arg("dup").arg(&dir).args(&dup_ops).output().expect("child");
        dup_result = Some((String::from_utf8_lossy(&o.stderr).to_string(), String::from_utf8_lossy(&o.stdout).to_string()));
        if !o.status.success() {
            ctx.report.fail(&case_id, "dup-child-died", &format!("child exited with {:?}: {}", o.status, String::from_utf8_lossy(&o.stderr)));
        }
    }
    let (mut d_err, mut d_out) = (0u64, 0u64);
    for (li, line) in lines.iter().enumerate() {
        let t = tokens(line);
        let needs_logger = matches!(t[0], "SET" | "PUSH" | "POP" | "PARSENEW" | "PARSEPUSH" | "GRID" | "Q" | "LOG" | "CSTART" | "CENTER" | "CGO" | "CFINISH" | "CQUIET" | "CRACE");
        let needs_spec = matches!(t[0], "DISPLAY" | "DISPLAYSORTED" | "TOML" | "STARTSPECFILE" | "EN" | "MAXLEVEL" | "INIT" | "SET" | "PUSH");
        if needs_logger && st.logger.is_none() {
            out.push("no-logger".into());
            continue;
        }
        if needs_spec && t.len() > 1 && !st.specs.contains_key(t[1]) {
            out.push("bad-op unknown spec".into());
            continue;
        }
        let ans: String = match t.as_slice() {
            ["CASE", ..] => header_answer(line),
            ["END"] => "END".into(),
            // oracle-only annotation for the next PARSE/PARSENEW/PARSEPUSH:
            // NOTE <ok|err> <intended filters> <regex|_>
            ["NOTE", "dupcapture"] => "ok".into(),
            ["NOTE", ok, fs, rx] => {
                let fs = parse_filters(fs).expect("NOTE filters");
                let rx = if *rx == "_" { None } else { unhexs(&rx[1..]) };
                st.pending_note = Some((*ok == "ok", fs, rx));
                "ok".into()
            }
            // a user-supplied `LogLineFilter` that forwards every line it is handed: configuring it
            // must not change which records are written
            ["LINEFILTER"] => { st.linefilter = true; "ok".into() }
            ["WRITER", n, c, rest @ ..] => {
                st.writers.push((unhexs(n).unwrap(), c.parse().unwrap()));
                st.kinds.insert(unhexs(n).unwrap(), rest.first().map_or("rec0".to_string(), |k| k.to_string()));
                "ok".into()
            }
            ["BUILD", id, fs, rx] => {
                let fs = parse_filters(fs).unwrap();
                let rx = if *rx == "_" { None } else { unhexs(&rx[1..]) };
                let s = build_spec(&fs, rx.as_deref());
                // the builder is a map: a later entry for the same name replaces the earlier one
                let mut dedup: Vec<(Option<String>, u64)> = Vec::new();
                for (n, l) in &fs {
                    if let Some(e) = dedup.iter_mut().find(|e| e.0 == *n) {
                        e.1 = *l;
                    } else {
                        dedup.push((n.clone(), *l));
                    }
                }
                st.abs.intended.insert(id.to_string(), Some((dedup, rx)));
                st.specs.insert(id.to_string(), s);
                ctx.report.count("op.BUILD");
                "ok".into()
            }
            ["PARSE", id, s, _rxok] => {
                let text = unhexs(s).unwrap();
                ctx.report.count("op.PARSE");
                let r = catch_unwind(AssertUnwindSafe(|| LogSpecification::parse(&text)));
                let note = st.pending_note.take();
                match r {
                    Err(_) => {
                        ctx.report.fail(&case_id, "parse-panics", &format!("line {li}: parse panicked on {text:?}"));
                        "panic".into()
                    }
                    Ok(Ok(spec)) => {
                        ctx.report.count("parse.ok");
                        if let Some((ok, fs, rx)) = &note {
                            if !ok {
                                ctx.report.fail(&case_id, "malformed-accepted", &format!("line {li}: {text:?} is malformed but parse returned Ok"));
                            }
                            st.abs.intended.insert(id.to_string(), Some((fs.clone(), rx.clone())));
                            oracle_salvage(ctx, &case_id, li, &text, &spec, fs);
                        } else {
                            st.abs.intended.insert(id.to_string(), None);
                        }
                        let a = format!("ok {}", spec_str(&spec));
                        st.specs.insert(id.to_string(), spec);
                        a
                    }
                    Ok(Err(flexi_logger::FlexiLoggerError::Parse(_, spec))) => {
                        ctx.report.count("parse.err");
                        if let Some((ok, fs, rx)) = &note {
                            if *ok {
                                ctx.report.fail(&case_id, "wellformed-rejected", &format!("line {li}: {text:?} is well-formed but parse returned Err"));
                            }
                            st.abs.intended.insert(id.to_string(), Some((fs.clone(), rx.clone())));
                            oracle_salvage(ctx, &case_id, li, &text, &spec, fs);
                        } else {
                            st.abs.intended.insert(id.to_string(), None);
                        }
                        let a = format!("err {}", spec_str(&spec));
                        st.specs.insert(id.to_string(), spec);
                        a
                    }
                    Ok(Err(e)) => format!("other-error {e:?}"),
                }
            }
            ["ENVPARSE", id, mode, env, given, _rxe, _rxg] => {
                // the specification taken from RUST_LOG (`LogSpecification::env` / `env_or_parse`, the
                // routes behind `Logger::try_with_env*`); the variable is set for the call only
                let given = unhexs(given).unwrap();
                let envv = if *env == "~" { None } else { Some(unhexs(env).unwrap()) };
                ctx.report.count(&format!("op.ENVPARSE.{mode}.{}", if envv.is_some() { "set" } else { "unset" }));
                match &envv {
                    Some(v) => std::env::set_var("RUST_LOG", v),
                    None => std::env::remove_var("RUST_LOG"),
                }
                let r = catch_unwind(AssertUnwindSafe(|| {
                    if *mode == "env" { LogSpecification::env() } else { LogSpecification::env_or_parse(&given) }
                }));
                // the same through the logger's own entry points: they must agree on Ok/Err
                let lr = catch_unwind(AssertUnwindSafe(|| {
                    if *mode == "env" { flexi_logger::Logger::try_with_env().is_ok() } else { flexi_logger::Logger::try_with_env_or_str(&given).is_ok() }
                }));
                std::env::remove_var("RUST_LOG");
                st.abs.intended.insert(id.to_string(), None);
                match (r, lr) {
                    (Err(_), _) | (_, Err(_)) => {
                        ctx.report.fail(&case_id, "parse-panics", &format!("line {li}: {mode} panicked with RUST_LOG={envv:?}, given {given:?}"));
                        "panic".into()
                    }
                    (Ok(Ok(spec)), Ok(lok)) => {
                        if !lok { ctx.report.fail(&case_id, "logger-env-route-differs", &format!("line {li}: LogSpecification::{mode} is Ok but Logger::try_with_{mode} is Err (RUST_LOG={envv:?}, given {given:?})")); }
                        let a = format!("ok {}", spec_str(&spec));
                        st.specs.insert(id.to_string(), spec);
                        a
                    }
                    (Ok(Err(flexi_logger::FlexiLoggerError::Parse(_, spec))), Ok(lok)) => {
                        if lok { ctx.report.fail(&case_id, "logger-env-route-differs", &format!("line {li}: LogSpecification::{mode} is Err but Logger::try_with_{mode} is Ok (RUST_LOG={envv:?}, given {given:?})")); }
                        let a = format!("err {}", spec_str(&spec));
                        st.specs.insert(id.to_string(), spec);
                        a
                    }
                    (Ok(Err(e)), _) => format!("other-error {e:?}"),
                }
            }
            ["DISPLAY", id] | ["DISPLAYSORTED", id] => {
                let s = &st.specs[*id];
                let text = s.to_string();
                ctx.report.count("op.DISPLAY");
                // oracle (C17): parse(display s) decides identically
                match LogSpecification::parse(&text) {
                    Ok(s2) => oracle_same_decisions(ctx, &case_id, li, "display-roundtrip", s, &s2, &text),
                    Err(e) => ctx.report.fail(&case_id, "display-roundtrip", &format!("line {li}: Display form {text:?} does not parse: {e:?}")),
                }
                if t[0] == "DISPLAYSORTED" {
                    // hash order among equal-length names is not determined: compare the sorted parts
                    let mut parts: Vec<&str> = text.split(", ").collect();
                    parts.sort();
                    hexs(&parts.join(", "))
                } else {
                    hexs(&text)
                }
            }
            // a logger started with a specfile that does not exist yet (the specification is rendered into
            // it, the watcher is set up), one record, shutdown: nothing of this may panic (C10)
            ["STARTSPECFILE", id] => {
                ctx.report.count("op.STARTSPECFILE");
                let spec = st.specs[*id].clone();
                let d = ctx.work.join(format!("specfile-{}-{}", std::process::id(), ctx.case_no));
                let _ = std::fs::remove_dir_all(&d);
                std::fs::create_dir_all(&d).unwrap();
                let d2 = d.clone();
                // (every Logger::build sets the process-global max level: it is put back afterwards, the
                //  gate observations of the case belong to the case's own logger)
                let gate_before = log::max_level();
                let ep = st.err_path.clone();
                let r = catch_unwind(AssertUnwindSafe(move || {
                    let sink = Arc::new(Mutex::new(Vec::new()));
                    let primary = RecWriter { name: "_primary".into(), ceiling: LevelFilter::Trace, sink };
                    if let Ok((lg, hd)) = Logger::with(spec).log_to_writer(Box::new(primary)).error_channel(flexi_logger::ErrorChannel::File(ep)).panic_if_error_channel_is_broken(false).build_with_specfile(d2.join("spec.toml")) {
                        lg.log(&Record::builder().level(log::Level::Info).target("t").args(format_args!("x")).build());
                        hd.shutdown();
                    }
                }));
                let _ = std::fs::remove_dir_all(&d);
                log::set_max_level(gate_before);
                match r {
                    Ok(()) => "ok".into(),
                    Err(_) => { ctx.report.fail(&case_id, "panic", &format!("line {li}: starting a logger with a new specfile panicked (specification {:?})", spec_str(&st.specs[*id]))); "panic".into() }
                }
            }
            ["TOML", id] => {
                let s = &st.specs[*id];
                let text = match catch_unwind(AssertUnwindSafe(|| toml_text(s))) {
                    Ok(t) => t,
                    Err(_) => { ctx.report.fail(&case_id, "render-panics", &format!("line {li}: to_toml panicked for the specification {:?}", spec_str(s))); out.push("panic".into()); continue; }
                };
                ctx.report.count("op.TOML");
                match LogSpecification::from_toml(&text) {
                    Ok(s2) => {
                        oracle_same_decisions(ctx, &case_id, li, "toml-roundtrip", s, &s2, &text);
                        format!("ok {}", filters_str(&spec_filters(&s2)))
                    }
                    Err(e) => {
                        ctx.report.fail(&case_id, "toml-roundtrip", &format!("line {li}: TOML form does not parse: {e:?}\n{text}"));
                        "err".into()
                    }
                }
            }
            ["EN", id, lvl, tg] => {
                let l: u64 = lvl.parse().unwrap();
                let tg = unhexs(tg).unwrap();
                let s = &st.specs[*id];
                let got = s.enabled(level(l), &tg);
                ctx.report.count("op.EN");
                if let Some(Some((fs, _))) = st.abs.intended.get(*id) {
                    if let Some(sl) = spec_level(fs, &tg) {
                        nontrivial = true;
                        if got != (l <= sl) {
                            ctx.report.fail(&case_id, "enabled-vs-longest-prefix", &format!(
                                "line {li}: spec {} target {tg:?} level {l}: enabled()={got}, longest-prefix level={sl}", filters_str(fs)));
                        }
                    }
                }
                if got { "1".into() } else { "0".into() }
            }
            ["MAXLEVEL", id] => {
                // not observable on a LogSpecification; observed through INIT/SET gate
                let s = &st.specs[*id];
                let m = s.module_filters().iter().map(|m| lfn(m.level_filter)).max().unwrap_or(0);
                format!("{m}")
            }
            ["INIT", id] => {
                let spec = st.specs[*id].clone();
                let primary = RecWriter { name: "_primary".into(), ceiling: LevelFilter::Trace, sink: st.sink.clone() };
                let mut lg = Logger::with(spec)
                    .log_to_writer(Box::new(primary))
                    .error_channel(flexi_logger::ErrorChannel::File(st.err_path.clone()))
                    .panic_if_error_channel_is_broken(false);
                for (n, c) in &st.writers {
                    match st.kinds.get(n).map(String::as_str) {
                        Some("flw") => {
                            std::fs::create_dir_all(&st.dir).unwrap();
                            let fs = flexi_logger::FileSpec::default().directory(&st.dir).basename(format!("w{}", st.flw_paths.len())).suppress_timestamp();
                            st.flw_paths.insert(n.clone(), fs.as_pathbuf(None));
                            let w = flexi_logger::writers::FileLogWriter::builder(fs).max_level(lf(*c)).format(crate::props::flw::raw_format).try_build().unwrap();
                            lg = lg.add_writer(n.clone(), Box::new(w));
                        }
                        Some("syslog") => {
                            let server = std::net::UdpSocket::bind("127.0.0.1:0").unwrap();
                            server.set_nonblocking(true).unwrap();
                            let addr = server.local_addr().unwrap().to_string();
                            let conn = flexi_logger::writers::SyslogConnection::try_udp("127.0.0.1:0".to_string(), addr).unwrap();
                            let w = flexi_logger::writers::SyslogWriter::builder(conn, flexi_logger::writers::SyslogLineHeader::Rfc5424("fvh".to_owned()), flexi_logger::writers::SyslogFacility::LocalUse0)
                                .max_log_level(lf(*c)).build().unwrap();
                            st.syslog_socks.insert(n.clone(), server);
                            lg = lg.add_writer(n.clone(), w);
                        }
                        _ => {
                            lg = lg.add_writer(n.clone(), Box::new(RecWriter { name: n.clone(), ceiling: lf(*c), sink: st.sink.clone() }));
                        }
                    }
                }
                if st.linefilter {
                    lg = lg.filter(Box::new(Forward));
                }
                let built = lg.build().expect("build");
                st.logger = Some(built);
                st.abs.active = Some(id.to_string());
                st.abs.stack.clear();
                ctx.report.count("op.INIT");
                let g = lfn(log::max_level());
                oracle_gate(ctx, &case_id, li, &st, g);
                format!("gate={g}")
            }
            ["SET", id] | ["PUSH", id] => {
                let spec = st.specs[*id].clone();
                let is_push = t[0] == "PUSH";
                let h = &mut st.logger.as_mut().unwrap().1;
                if is_push { h.push_temp_spec(spec); } else { h.set_new_spec(spec); }
                if is_push { st.abs.stack.push(st.abs.active.clone()); }
                st.abs.active = Some(id.to_string());
                ctx.report.count(if is_push { "op.PUSH" } else { "op.SET" });
                let g = lfn(log::max_level());
                oracle_gate(ctx, &case_id, li, &st, g);
                format!("ok gate={g}")
            }
            ["POP"] => {
                let h = &mut st.logger.as_mut().unwrap().1;
                h.pop_temp_spec();
                if let Some(prev) = st.abs.stack.pop() {
                    st.abs.active = prev;
                    ctx.report.count("op.POP");
                } else {
                    ctx.report.count("op.POP.empty");
                }
                let g = lfn(log::max_level());
                oracle_gate(ctx, &case_id, li, &st, g);
                format!("ok gate={g}")
            }
            ["PARSENEW", s, _rxok] | ["PARSEPUSH", s, _rxok] => {
                let text = unhexs(s).unwrap();
                let is_push = t[0] == "PARSEPUSH";
                let note = st.pending_note.take();
                st.last_parse_id += 1;
                let id = format!("$p{}", st.last_parse_id);
                let h = &mut st.logger.as_mut().unwrap().1;
                let r = if is_push { h.parse_and_push_temp_spec(&text) } else { h.parse_new_spec(&text) };
                let ok = r.is_ok();
                ctx.report.count(&format!("op.{}.{}", t[0], if ok { "ok" } else { "err" }));
                if ok {
                    match &note {
                        Some((_, fs, rx)) => { st.abs.intended.insert(id.clone(), Some((fs.clone(), rx.clone()))); }
                        None => { st.abs.intended.insert(id.clone(), None); }
                    }
                    if is_push { st.abs.stack.push(st.abs.active.clone()); }
                    st.abs.active = Some(id);
                } else {
                    nontrivial = true;
                }
                if let Some((exp_ok, _, _)) = &note {
                    if *exp_ok != ok {
                        ctx.report.fail(&case_id, "parse-verdict", &format!("line {li}: {text:?}: expected ok={exp_ok}, got ok={ok}"));
                    }
                }
                let g = lfn(log::max_level());
                oracle_gate(ctx, &case_id, li, &st, g);
                format!("{} gate={g}", if ok { "ok" } else { "err" })
            }
            ["DUPINIT", e, o] => { d_err = e.parse().unwrap(); d_out = o.parse().unwrap(); "ok".into() }
            ["DUPADAPT", which, d] => { if *which == "err" { d_err = d.parse().unwrap(); } else { d_out = d.parse().unwrap(); } "ok".into() }
            ["DUPLOG", lvl, msg] => {
                let l: u64 = lvl.parse().unwrap();
                let marker = unhexs(msg).unwrap();
                let (se, so) = dup_result.as_ref().unwrap();
                let (e, o) = (se.contains(&marker), so.contains(&marker));
                ctx.report.count("op.DUPLOG");
                nontrivial = true;
                // oracle: duplicated exactly when the level is at or above the duplication level
                let want = |d: u64| d == 6 || (d >= 1 && l <= d);
                if e != want(d_err) || o != want(d_out) {
                    ctx.report.fail(&case_id, "duplication", &format!("line {li}: level {l}, duplicate_to_stderr={d_err}, duplicate_to_stdout={d_out}: duplicated to stderr={e}, stdout={o}"));
                }
                format!("err={} out={}", e as u8, o as u8)
            }
            ["CSTART", tid, _] | ["CPUSH", tid, _] | ["CPOP", tid] if st.c12.as_ref().is_some_and(|c| c.joins.contains_key(&tid.parse::<u64>().unwrap_or(0))) => {
                // (not a valid history: the previous call of this thread has not been finished)
                "bad-op call in flight".into()
            }
            ["CSTART", tid, id] => {
                if !st.specs.contains_key(*id) {
                    "bad-op unknown spec".into()
                } else {
                let tid: u64 = tid.parse().unwrap();
                let c = st.c12.get_or_insert_with(C12::new);
                let spec = st.specs[*id].clone();
                c.submitted.push(id.to_string());
                c.join(tid);
                c.reset(tid);
                let h = st.logger.as_ref().unwrap().1.clone();
                ctx.report.count("op.CSTART");
                c.joins.insert(tid, std::thread::Builder::new().name(format!("c12-{tid}")).spawn(move || {
                    h.set_new_spec(spec);
                    std::mem::forget(h); // dropping a clone would shut the writers down
                    None
                }).unwrap());
                if c.wait_arrival(tid) { "ok".into() } else { ctx.report.count("c12.blocked"); "blocked".into() }
                }
            }
            // push_temp_spec / pop_temp_spec on the handle clone of thread `tid` (kept between the
            // calls: every clone has its own stack); the call parks inside the critical section of the
            // change it ends with, like CSTART; a pop with nothing saved returns at once
            ["CPUSH", tid, id] if st.specs.contains_key(*id) => {
                let tid: u64 = tid.parse().unwrap();
                let base = st.logger.as_ref().unwrap().1.clone();
                let c = st.c12.get_or_insert_with(C12::new);
                let spec = st.specs[*id].clone();
                c.submitted.push(id.to_string());
                c.join(tid);
                c.reset(tid);
                let mut h = match c.clones.remove(&tid) { Some(h) => { std::mem::forget(base); h } None => base };
                ctx.report.count("op.CPUSH");
                c.joins.insert(tid, std::thread::Builder::new().name(format!("c12-{tid}")).spawn(move || {
                    h.push_temp_spec(spec);
                    Some(h)
                }).unwrap());
                if c.wait_arrival(tid) { "ok".into() } else { ctx.report.count("c12.blocked"); "blocked".into() }
            }
            ["CPOP", tid] => {
                let tid: u64 = tid.parse().unwrap();
                ctx.report.count("op.CPOP");
                match st.c12.as_mut() {
                    Some(c) => {
                        c.join(tid);
                        c.reset(tid);
                        match c.clones.remove(&tid) {
                            Some(mut h) => {
                                c.joins.insert(tid, std::thread::Builder::new().name(format!("c12-{tid}")).spawn(move || {
                                    h.pop_temp_spec();
                                    Some(h)
                                }).unwrap());
                                if c.wait_arrival(tid) { "ok".into() } else { ctx.report.count("c12.blocked"); "blocked".into() }
                            }
                            // this clone has saved nothing: pop_temp_spec changes nothing
                            None => "ok".into(),
                        }
                    }
                    None => "bad-op no concurrent section".into(),
                }
            }
            // CENTER: the call is entered and parked before it asks for the lock; CGO lets it go on
            ["CENTER", tid, id] => {
                if !st.specs.contains_key(*id) {
                    "bad-op unknown spec".into()
                } else {
                let tid: u64 = tid.parse().unwrap();
                let c = st.c12.get_or_insert_with(C12::new);
                let spec = st.specs[*id].clone();
                c.submitted.push(id.to_string());
                let h = st.logger.as_ref().unwrap().1.clone();
                ctx.report.count("op.CENTER");
                c.joins.insert(tid, std::thread::Builder::new().name(format!("c12e-{tid}")).spawn(move || {
                    h.set_new_spec(spec);
                    std::mem::forget(h);
                    None
                }).unwrap());
                if c.wait_updated(tid + 1000, 2000) { "ok".into() } else { "not-parked".into() }
                }
            }
            ["CGO", tid, _id] => {
                let tid: u64 = tid.parse().unwrap();
                ctx.report.count("op.CGO");
                match st.c12.as_mut() {
                    Some(c) if c.joins.contains_key(&tid) => {
                        c.release(tid + 1000);
                        if c.wait_arrival(tid) { "ok".into() } else { ctx.report.count("c12.blocked"); "blocked".into() }
                    }
                    _ => "bad-op no such call".into(),
                }
            }
            ["CFINISH", tid] => {
                let tid: u64 = tid.parse().unwrap();
                ctx.report.count("op.CFINISH");
                match st.c12.as_mut() {
                    Some(c) if c.joins.contains_key(&tid) && c.wait_updated(tid, 0) => {
                        c.release(tid);
                        c.join(tid);
                        // a call that was waiting for the lock now proceeds to its own parking point
                        let waiting: Vec<u64> = c.joins.keys().copied().collect();
                        for w in waiting {
                            c.wait_arrival(w);
                        }
                        "ok".into()
                    }
                    _ => "blocked".into(),
                }
            }
            // free-running race: in every round the threads submit their specifications at the same
            // time (from a barrier); after all calls have returned the logger must behave like ONE of
            // the submitted specifications as a whole — module filters, text filter and gate —
            // judged by probe records through the facade. `CRACE <rounds> <base> <id> <id> …`
            ["CRACE", rounds, base, ids @ ..] => {
                let rounds: usize = rounds.parse().unwrap();
                ctx.report.count("op.CRACE");
                let (lg, h) = { let l = st.logger.as_ref().unwrap(); (&l.0, l.1.clone()) };
                let probes_t: Vec<String> = { let mut v: Vec<String> = ids.iter().chain([base].into_iter()).filter_map(|id| st.abs.intended.get(*id).cloned().flatten()).flat_map(|(fs, _)| fs.into_iter().filter_map(|f| f.0)).collect(); v.push("zzz".into()); v.sort(); v.dedup(); v };
                let msgs = ["alpha one", "beta two", "plain"];
                let mut bad: Option<String> = None;
                for round in 0..rounds {
                    h.set_new_spec(st.specs[*base].clone());
                    let barrier = Arc::new(std::sync::Barrier::new(ids.len()));
                    let joins: Vec<_> = ids.iter().map(|id| {
                        let sp = st.specs[*id].clone();
                        let hh = h.clone();
                        let b = barrier.clone();
                        std::thread::spawn(move || { b.wait(); hh.set_new_spec(sp); std::mem::forget(hh); })
                    }).collect();
                    for j in joins { let _ = j.join(); }
                    // observe
                    let gate = lfn(log::max_level());
                    let mut seen: Vec<bool> = Vec::new();
                    for t in &probes_t { for l in 1..=5u64 { for m in &msgs {
                        st.sink.lock().unwrap().clear();
                        if level(l) <= log::max_level() {
                            lg.log(&Record::builder().level(level(l)).target(t).module_path(Some(t.as_str())).args(format_args!("{}", m)).build());
                        }
                        seen.push(st.sink.lock().unwrap().iter().any(|(n, _, _)| n == "_primary"));
                    } } }
                    let wmax = st.writers.iter().map(|w| w.1).max().unwrap_or(0);
                    let matches = ids.iter().any(|id| {
                        let Some(Some((fs, rx))) = st.abs.intended.get(*id) else { return true };
                        let rx = rx.as_ref().map(|x| regex::Regex::new(x).unwrap());
                        let smax = fs.iter().map(|f| f.1).max().unwrap_or(0);
                        if gate != smax.max(wmax) { return false; }
                        let mut i = 0;
                        for t in &probes_t { for l in 1..=5u64 { for m in &msgs {
                            let Some(sl) = spec_level(fs, t) else { return true };
                            let want = l <= sl && rx.as_ref().map_or(true, |x| x.is_match(m));
                            if seen[i] != want { return false; }
                            i += 1;
                        } } }
                        true
                    });
                    if !matches { bad = Some(format!("round {round}: after all calls returned the logger (gate {gate}) behaves like none of the submitted specifications {ids:?} as a whole")); break; }
                }
                std::mem::forget(h);
                st.abs.active = None;
                if let Some(b) = bad { ctx.report.fail(&case_id, "race-mixed-state", &format!("line {li}: {b}")); }
                "ok".into()
            }
            // all calls have returned: consistency oracle (C12)
            ["CQUIET", tgs @ ..] => {
                let submitted = st.c12.as_ref().map(|c| c.submitted.clone()).unwrap_or_default();
                if let Some(c) = st.c12.as_mut() {
                    c.finish_all();
                }
                st.c12 = None;
                let lg = &st.logger.as_ref().unwrap().0;
                let gate = lfn(log::max_level());
                let mut candidates: Vec<String> = submitted.clone();
                if let Some(a) = &st.abs.active { candidates.push(a.clone()); }
                let mut matching: Vec<(String, u64)> = Vec::new();
                for id in &candidates {
                    if let Some(Some((fs, _))) = st.abs.intended.get(id) {
                        let mut same = true;
                        for tg in tgs {
                            let tg = unhexs(tg).unwrap();
                            for l in GRID_LEVELS {
                                let md = log::Metadata::builder().level(level(l)).target(&tg).build();
                                if let Some(sl) = spec_level(fs, &tg) {
                                    if lg.enabled(&md) != (l <= sl) { same = false; }
                                }
                            }
                        }
                        if same {
                            let need = fs.iter().map(|f| f.1).max().unwrap_or(0);
                            matching.push((id.clone(), st.writers.iter().map(|w| w.1).fold(need, u64::max)));
                        }
                    }
                }
                nontrivial = true;
                if let Some((id, _)) = matching.first() {
                    st.abs.active = Some(id.clone());
                }
                if matching.is_empty() {
                    ctx.report.fail(&case_id, "mixed-specification", &format!("line {li}: after all calls returned the logger filters according to none of the submitted specifications {candidates:?}"));
                } else if matching.iter().all(|(_, need)| gate < *need) {
                    ctx.report.fail(&case_id, "gate-of-another-spec", &format!(
                        "line {li}: after all calls returned spec {:?} is active (needs max level {}) but log::max_level()={gate}", matching[0].0, matching[0].1));
                }
                format!("gate={gate}")
            }
            // enabled grid on plain targets: GRID <t1> <t2> ...
            ["GRID", tgs @ ..] => {
                let lg = &st.logger.as_ref().unwrap().0;
                let mut bits = String::new();
                ctx.report.count("op.GRID");
                let intended = st.abs.active.as_ref().and_then(|id| st.abs.intended.get(id)).cloned().flatten();
                for tg in tgs {
                    let tg = unhexs(tg).unwrap();
                    for l in GRID_LEVELS {
                        let md = log::Metadata::builder().level(level(l)).target(&tg).build();
                        let got = lg.enabled(&md);
                        bits.push(if got { '1' } else { '0' });
                        if let Some((fs, _)) = &intended {
                            if !tg.starts_with('{') {
                                if let Some(sl) = spec_level(fs, &tg) {
                                    if got != (l <= sl) {
                                        ctx.report.fail(&case_id, "active-spec-grid", &format!(
                                            "line {li}: after {:?}: target {tg:?} level {l}: enabled()={got} but the spec that should be active ({}) gives {}",
                                            lines[li.saturating_sub(1)], filters_str(fs), l <= sl));
                                    }
                                }
                            }
                        }
                    }
                    bits.push('.');
                }
                bits
            }
            ["Q", lvl, tg] => {
                let l: u64 = lvl.parse().unwrap();
                let tg = unhexs(tg).unwrap();
                let lg = &st.logger.as_ref().unwrap().0;
                ctx.report.count("op.Q");
                let r = catch_unwind(AssertUnwindSafe(|| {
                    let md = log::Metadata::builder().level(level(l)).target(&tg).build();
                    lg.enabled(&md)
                }));
                match r { Ok(true) => "1".into(), Ok(false) => "0".into(), Err(_) => "panic".into() }
            }
            // LOG <lvl> <target> <module|_> <matchbit> <msg>
            ["LOG", lvl, tg, m, mt, msg] => {
                let l: u64 = lvl.parse().unwrap();
                let tg = unhexs(tg).unwrap();
                let module = if *m == "_" { None } else { unhexs(&m[1..]) };
                let msg = unhexs(msg).unwrap();
                let lg = &st.logger.as_ref().unwrap().0;
                ctx.report.count("op.LOG");
                st.sink.lock().unwrap().clear();
                let unknown_before = err_count(&st.err_path, "bad writer spec");
                let r = catch_unwind(AssertUnwindSafe(|| {
                    // what the log facade does: max-level shortcut, then Log::log
                    if level(l) > log::max_level() { return; }
                    lg.log(&Record::builder()
                        .level(level(l)).target(&tg).module_path(module.as_deref())
                        .args(format_args!("{}", msg)).build());
                }));
                let unknown_now = err_count(&st.err_path, "bad writer spec");
                // the enabled() query for the oracle (it reports unknown names once more)
                let q = catch_unwind(AssertUnwindSafe(|| {
                    let md = log::Metadata::builder().level(level(l)).target(&tg).build();
                    lg.enabled(&md)
                })).ok();
                if r.is_err() {
                    "panic".into()
                } else {
                    let got = st.sink.lock().unwrap().clone();
                    let default = got.iter().any(|(n, _, _)| n == "_primary");
                    let ws: Vec<String> = got.iter().filter(|(n, _, _)| n != "_primary").map(|(n, _, _)| format!("w{}", hexs(n))).collect();
                    // which writers emitted the record (in registration order for the provided kinds)
                    let mut emitted: Vec<String> = Vec::new();
                    for (n, _, _) in got.iter().filter(|(n, _, _)| n != "_primary") {
                        let k = st.kinds.get(n).map(String::as_str).unwrap_or("rec0");
                        // "rec0": a recording writer that honours its ceiling like FileLogWriter (C02 cases);
                        // "rec": a custom writer that emits whatever it receives
                        if k == "rec" || st.writers.iter().any(|(wn, c)| wn == n && l <= *c) { emitted.push(n.clone()); }
                    }
                    let mut provided: Vec<String> = Vec::new();
                    for (n, p) in &st.flw_paths {
                        let len = std::fs::metadata(p).map(|m| m.len()).unwrap_or(0);
                        let before = st.flw_len.get(n).copied().unwrap_or(0);
                        if len > before { provided.push(n.clone()); }
                        st.flw_len.insert(n.clone(), len);
                    }
                    for (n, sock) in &st.syslog_socks {
                        let mut buf = [0u8; 2048];
                        let mut any = false;
                        while sock.recv(&mut buf).is_ok() { any = true; }
                        if any { provided.push(n.clone()); }
                    }
                    let has_provided = !st.flw_paths.is_empty() || !st.syslog_socks.is_empty();
                    // oracle C13: no provided writer emits above its ceiling
                    for n in &provided {
                        if let Some((_, c)) = st.writers.iter().find(|(wn, _)| wn == n) {
                            if l > *c {
                                ctx.report.fail(&case_id, "writer-above-ceiling", &format!("line {li}: writer {n:?} ({}) with max level {c} emitted a record of level {l}", st.kinds[n]));
                            }
                        }
                    }
                    let unknown = unknown_now - unknown_before;
                    // oracle C02 (plain targets): passed on iff enabled by the active spec and regex matches
                    let intended = st.abs.active.as_ref().and_then(|id| st.abs.intended.get(id)).cloned().flatten();
                    if !tg.starts_with('{') {
                        if let Some((fs, rx)) = &intended {
                            if let Some(sl) = spec_level(fs, &tg) {
                                nontrivial = true;
                                let _ = mt;
                                let want = l <= sl && rx.as_ref().map_or(true, |x| regex::Regex::new(x).unwrap().is_match(&msg));
                                if default != want {
                                    ctx.report.fail(&case_id, "written-iff-enabled", &format!(
                                        "line {li}: spec {} regex {rx:?} target {tg:?} level {l} msg {msg:?} : written={default}, expected {want}", filters_str(fs)));
                                }
                            }
                        }
                    }
                    // oracle C13 (brace targets with `_Default` in the list, whatever else is named): the
                    // default channel gets the record iff the spec enables it for the record's MODULE path
                    // (and the text filter matches) — unknown or other names do not disturb that
                    if (prop == "C13" || (prop == "C02" && st.kinds.is_empty())) && tg.starts_with('{') && tg.ends_with('}') && tg.len() >= 2 && l <= lfn(log::max_level()) {
                        let inner = &tg[1..tg.len() - 1];
                        if inner.split(',').any(|n| n == "_Default") {
                            if let Some((fs, rx)) = &intended {
                                if let Some(sl) = spec_level(fs, module.as_deref().unwrap_or("")) {
                                    let want = l <= sl && rx.as_ref().map_or(true, |x| regex::Regex::new(x).unwrap().is_match(&msg));
                                    if default != want {
                                        ctx.report.fail(&case_id, "brace-default-iff-enabled", &format!(
                                            "line {li}: target {tg:?} module {module:?} level {l}: spec {} regex {rx:?}: default channel written={default}, expected {want}", filters_str(fs)));
                                    }
                                }
                            }
                        }
                    }
                    if !tg.starts_with('{') {
                        // gate never hides an accepted record
                        if default && l > lfn(log::max_level()) {
                            ctx.report.fail(&case_id, "gate-hides-record", &format!(
                                "line {li}: record level {l} target {tg:?} is written but log::max_level()={}", lfn(log::max_level())));
                        }
                    }
                    // enabled() never false for a record that is written
                    let honouring_emitted = emitted.iter().any(|n| st.kinds.get(n).map(String::as_str) != Some("rec")) || !provided.is_empty();
                    // (the `{.., _Default}` part of this statement is C02's known finding; it is evaluated for C02 only)
                    // (generated `{_Default}` targets of writer-less loggers: the delivery is judged by
                    //  brace-default-iff-enabled; the enabled() QUERY for them is the known finding — `Metadata`
                    //  has no module path —, replayed by its directed corpus case only)
                    let known_query = tg.starts_with('{') && tg.contains("_Default") && !case_id.contains("corpus:");
                    if prop == "C02" && (default || honouring_emitted) && q == Some(false) && !known_query {
                        ctx.report.fail(&case_id, &format!("enabled-false-but-written{}", if tg.starts_with('{') { "-brace" } else { "" }), &format!(
                            "line {li}: target {tg:?} level {l}: enabled()=false but the record was written (default={default}, writers={emitted:?})"));
                    }
                    if has_provided || st.kinds.values().any(|k| k == "rec") {
                        // C13 cases: receipts of custom writers, emissions of all, in brace-list order
                        let recv: Vec<String> = got.iter().filter(|(n, _, _)| n != "_primary" && st.kinds.get(n).map(String::as_str) == Some("rec")).map(|(n, _, _)| format!("w{}", hexs(n))).collect();
                        let inner = if tg.starts_with('{') { tg.get(1..tg.len() - 1).unwrap_or_default().to_string() } else { String::new() };
                        let mut em: Vec<String> = Vec::new();
                        for n in inner.split(',') {
                            let cnt_rec = emitted.iter().filter(|e| e.as_str() == n).count();
                            if provided.iter().any(|p| p == n) { em.push(format!("w{}", hexs(n))); }
                            else if cnt_rec > 0 { em.push(format!("w{}", hexs(n))); if let Some(pos) = emitted.iter().position(|e| e == n) { emitted.remove(pos); } }
                        }
                        // oracle C13: exactly once to each registered writer named (distinct names), to no other
                        let names: Vec<&str> = inner.split(',').collect();
                        let distinct = names.iter().all(|n| names.iter().filter(|x| x == &n).count() == 1);
                        // (a record above the global max level — which covers every writer's ceiling — is
                        //  cut off by the log facade before it reaches the logger)
                        if tg.starts_with('{') && distinct && l <= lfn(log::max_level()) {
                            for (wn, _) in &st.writers {
                                if st.kinds.get(wn).map(String::as_str) == Some("rec") {
                                    let cnt = got.iter().filter(|(n, _, _)| n == wn).count();
                                    let want = usize::from(names.contains(&wn.as_str()));
                                    if cnt != want {
                                        ctx.report.fail(&case_id, "brace-delivery", &format!("line {li}: target {tg:?}: writer {wn:?} received the record {cnt} time(s), expected {want}"));
                                    }
                                }
                            }
                            let want_default = names.contains(&"_Default");
                            if default && !want_default {
                                ctx.report.fail(&case_id, "brace-default", &format!("line {li}: target {tg:?} reached the default channel without _Default in the list"));
                            }
                        }
                        format!("default={} to={} unknown={unknown} emitted={}", if default { 1 } else { 0 }, if recv.is_empty() { "-".to_string() } else { recv.join(",") }, if em.is_empty() { "-".to_string() } else { em.join(",") })
                    } else {
                        // (no recording writer registered, maybe no additional writer at all) the brace
                        // target still addresses writers only: without `_Default` in the list the
                        // default channel gets nothing
                        if prop == "C13" && tg.starts_with('{') && tg.ends_with('}') && tg.len() >= 2 && l <= lfn(log::max_level()) {
                            let inner = &tg[1..tg.len() - 1];
                            if default && !inner.split(',').any(|n| n == "_Default") {
                                ctx.report.fail(&case_id, "brace-default", &format!("line {li}: target {tg:?} reached the default channel without _Default in the list"));
                            }
                        }
                        format!("default={} to={} unknown={unknown}", if default { 1 } else { 0 }, if ws.is_empty() { "-".to_string() } else { ws.join(",") })
                    }
                }
            }
            _ => format!("bad-op {line}"),
        };
        out.push(ans);
    }
    if let Some(c) = st.c12.as_mut() {
        c.finish_all();
    }
    if let Some((_, h)) = st.logger.take() {
        drop(h);
    }
    if nontrivial {
        ctx.report.nontrivial_case(lines);
    }
    if ctx.report.samples.len() < 3 {
        ctx.report.samples.push(lines.join(" | "));
    }
    let _ = prop;
    let _ = std::fs::remove_file(&st.err_path);
    let _ = std::fs::remove_dir_all(&st.dir);
    out
}

fn oracle_gate(ctx: &mut Ctx, case_id: &str, li: usize, st: &St, gate: u64) {
    // the gate admits everything the active spec enables and everything a writer accepts
    if let Some(Some((fs, _))) = st.abs.active.as_ref().and_then(|id| st.abs.intended.get(id)) {
        let need = fs.iter().map(|f| f.1).max().unwrap_or(0);
        let need = st.writers.iter().map(|w| w.1).fold(need, u64::max);
        if gate < need {
            ctx.report.fail(case_id, "gate-too-low", &format!(
                "line {li}: log::max_level()={gate} but the active spec/writers accept level {need}"));
        }
    }
}

fn grid_targets(names: &[String]) -> Vec<String> {
    let mut v: Vec<String> = vec![String::new(), "zzz_unrelated".into()];
    for n in names {
        v.push(n.clone());
        v.push(format!("{n}::sub"));
        v.push(format!("{n}x"));
        if n.len() > 1 {
            let mut cut = n.len() - 1;
            while !n.is_char_boundary(cut) {
                cut -= 1;
            }
            v.push(n[..cut].to_string());
        }
    }
    v.sort();
    v.dedup();
    v
}

fn oracle_same_decisions(ctx: &mut Ctx, case_id: &str, li: usize, sig: &str, a: &LogSpecification, b: &LogSpecification, text: &str) {
    let names: Vec<String> = a.module_filters().iter().chain(b.module_filters().iter()).filter_map(|m| m.module_name.clone()).collect();
    for tg in grid_targets(&names) {
        for l in GRID_LEVELS {
            if a.enabled(level(l), &tg) != b.enabled(level(l), &tg) {
                ctx.report.fail(case_id, sig, &format!(
                    "line {li}: after the round trip through {text:?} the decision for target {tg:?} level {l} changed from {} to {}",
                    a.enabled(level(l), &tg), b.enabled(level(l), &tg)));
                return;
            }
        }
    }
}

/// the spec attached to the parse result contains exactly the well-formed parts
fn oracle_salvage(ctx: &mut Ctx, case_id: &str, li: usize, text: &str, got: &LogSpecification, want: &[(Option<String>, u64)]) {
    let mut g = spec_filters(got);
    let mut w = want.to_vec();
    g.sort();
    w.sort();
    if g != w {
        ctx.report.fail(case_id, "salvaged-spec", &format!(
            "line {li}: parse({text:?}) carries {} but the well-formed parts are {}", filters_str(&g), filters_str(&w)));
    }
}

// ------------------------------------------------------------------------------------------
// generators
// ------------------------------------------------------------------------------------------

const SEGS: [&str; 14] = ["a", "b", "ab", "abc", "crate1", "mod1", "mod2", "x", "info", "warn", "off", "trace", "é", "core"];

fn gen_name(r: &mut Rng) -> String {
    let n = r.range(1, 3);
    (0..n).map(|_| r.pick(&SEGS).to_string()).collect::<Vec<_>>().join("::")
}

/// a set of distinct names, biased to prefixes of each other and equal lengths
fn gen_names(r: &mut Rng, max: u64) -> Vec<String> {
    let mut v: Vec<String> = Vec::new();
    let n = r.range(0, max);
    while (v.len() as u64) < n {
        let cand = if !v.is_empty() && r.chance(1, 2) {
            let base = r.pick(&v).clone();
            match r.below(4) {
                0 => format!("{base}::{}", r.pick(&SEGS)),
                1 => format!("{base}{}", r.pick(&SEGS)),
                2 => {
                    let mut cut = base.len().saturating_sub(1).max(1).min(base.len());
                    while !base.is_char_boundary(cut) { cut -= 1; }
                    if cut == 0 { gen_name(r) } else { base[..cut].to_string() }
                }
                _ => {
                    // same length, different content
                    let mut c: Vec<char> = base.chars().collect();
                    let i = r.below(c.len() as u64) as usize;
                    c[i] = if c[i] == 'q' { 'r' } else { 'q' };
                    c.into_iter().collect()
                }
            }
        } else {
            gen_name(r)
        };
        if !cand.is_empty() && !v.contains(&cand) {
            v.push(cand);
        }
    }
    v
}

fn gen_filters(r: &mut Rng, max: u64) -> Vec<(Option<String>, u64)> {
    let mut fs: Vec<(Option<String>, u64)> = gen_names(r, max).into_iter().map(|n| (Some(n), r.below(6))).collect();
    if r.chance(2, 3) {
        let pos = r.below(fs.len() as u64 + 1) as usize;
        fs.insert(pos, (None, r.below(6)));
    }
    fs
}

fn level_word(r: &mut Rng, l: u64) -> String {
    let w = ["off", "error", "warn", "info", "debug", "trace"][l as usize];
    match r.below(4) {
        0 => w.to_uppercase(),
        1 => {
            let mut c: Vec<char> = w.chars().collect();
            c[0] = c[0].to_ascii_uppercase();
            c.into_iter().collect()
        }
        _ => w.to_string(),
    }
}

fn ws(r: &mut Rng) -> &'static str {
    *r.pick(&["", "", " ", "  ", "\t", " \n", "\u{a0}", "\u{2003}"])
}

/// renders a structured filter list as a well-formed spec string (random spacing/case)
fn render_spec(r: &mut Rng, fs: &[(Option<String>, u64)]) -> String {
    let mut parts: Vec<String> = Vec::new();
    for (n, l) in fs {
        match n {
            None => parts.push(format!("{}{}{}", ws(r), level_word(r, *l), ws(r))),
            Some(n) => {
                if *l == 5 && r.chance(1, 3) {
                    if r.chance(1, 2) && super::spec::parse_level_word(n).is_none() {
                        parts.push(format!("{}{}{}", ws(r), n, ws(r)));
                    } else {
                        parts.push(format!("{}{}{}={}", ws(r), n, ws(r), ws(r)));
                    }
                } else {
                    parts.push(format!("{}{}{}={}{}{}", ws(r), n, ws(r), ws(r), level_word(r, *l), ws(r)));
                }
            }
        }
        if r.chance(1, 8) {
            parts.push(ws(r).to_string()); // empty part
        }
    }
    parts.join(",")
}

pub fn parse_level_word(s: &str) -> Option<u64> {
    match s.to_lowercase().as_str() {
        "off" => Some(0),
        "error" => Some(1),
        "warn" => Some(2),
        "info" => Some(3),
        "debug" => Some(4),
        "trace" => Some(5),
        _ => None,
    }
}

const MSGS: [&str; 8] = ["", "hello", "foo bar", "FOO", "line1\nline2", "ünï", "a{b}c", "bar"];
const REGEXES: [&str; 6] = ["foo", "^hello$", "bar|FOO", "", "l.ne", "ü"];

/// `L<hex>,<hex>..`: the regexes of `REGEXES` that match the message
fn match_list(msg: &str) -> String {
    let v: Vec<String> = REGEXES.iter().filter(|x| regex::Regex::new(x).unwrap().is_match(msg)).map(|x| hexs(x)).collect();
    format!("L{}", v.join(","))
}

fn targets_for(r: &mut Rng, names: &[String]) -> Vec<String> {
    let mut v = grid_targets(names);
    // keep it small: random subset biased to include everything for small sets
    while v.len() > 10 {
        let i = r.below(v.len() as u64) as usize;
        v.remove(i);
    }
    v
}

fn n_cases(tier: &str, quick: u64, thorough: u64) -> u64 {
    if tier == "thorough" { thorough } else { quick }
}

pub fn gen_c02(tier: &str, seed: u64) -> Vec<Vec<String>> {
    let mut root = Rng::new(seed ^ 0xC02);
    let mut cases = Vec::new();
    for k in 0..n_cases(tier, 300, 6000) {
        let mut r = root.fork();
        let mut c = vec![format!("CASE spec C02 {k}")];
        let nw = r.below(3);
        let mut wnames = Vec::new();
        for i in 0..nw {
            let n = format!("W{i}");
            c.push(format!("WRITER {} {}", hexs(&n), r.below(6)));
            wnames.push(n);
        }
        let fs = gen_filters(&mut r, 5);
        let names: Vec<String> = fs.iter().filter_map(|f| f.0.clone()).collect();
        let rx = if r.chance(1, 3) { Some(r.pick(&REGEXES).to_string()) } else { None };
        let via_parse = r.chance(1, 2);
        if via_parse {
            let mut text = render_spec(&mut r, &fs);
            if let Some(rx) = &rx { text = format!("{text}/{rx}"); }
            // two defaults / duplicates are outside the quantifier; fs has none by construction
            c.push(format!("NOTE ok {} {}", filters_str(&fs), rx.as_ref().map_or("_".into(), |x| format!("r{}", hexs(x)))));
            c.push(format!("PARSE s {} 1", hexs(&text)));
        } else {
            c.push(format!("BUILD s {} {}", filters_str(&fs), rx.as_ref().map_or("_".into(), |x| format!("r{}", hexs(x)))));
        }
        let tgs = targets_for(&mut r, &names);
        for tg in &tgs {
            for l in GRID_LEVELS {
                c.push(format!("EN s {l} {}", hexs(tg)));
            }
        }
        if r.chance(1, 4) { c.push("LINEFILTER".into()); }
        c.push("INIT s".into());
        c.push(format!("GRID {}", tgs.iter().map(|t| hexs(t)).collect::<Vec<_>>().join(" ")));
        for _ in 0..r.range(4, 12) {
            let tg = r.pick(&tgs).clone();
            let l = r.range(1, 5);
            let msg = r.pick(&MSGS).to_string();
            let mt = rx.as_ref().map_or(true, |x| regex::Regex::new(x).unwrap().is_match(&msg));
            let module = if r.chance(1, 2) { format!("m{}", hexs(&tg)) } else { "_".into() };
            c.push(format!("LOG {l} {} {module} {} {}", hexs(&tg), if mt { 1 } else { 0 }, hexs(&msg)));
        }
        // run-time changes and back (the gate must follow): push a more restrictive spec and pop it,
        // or set it and set the original again; then the same decisions must hold as before
        if r.chance(1, 2) {
            c.push(format!("BUILD t _:{} _", r.below(2)));
            if r.chance(1, 2) { c.push("PUSH t".into()); c.push("POP".into()); } else { c.push("SET t".into()); c.push("SET s".into()); }
            c.push(format!("GRID {}", tgs.iter().map(|t| hexs(t)).collect::<Vec<_>>().join(" ")));
            for _ in 0..r.range(3, 8) {
                let tg = r.pick(&tgs).clone();
                let l = r.range(1, 5);
                let msg = r.pick_s(&MSGS).to_string();
                let mt = rx.as_ref().map_or(true, |x| regex::Regex::new(x).unwrap().is_match(&msg));
                c.push(format!("LOG {l} {} _ {} {}", hexs(&tg), if mt { 1 } else { 0 }, hexs(&msg)));
            }
        }
        // a run-time change to a specification that differs ONLY in the text filter, and back
        if r.chance(1, 3) {
            let mut rx2 = Some(r.pick(&REGEXES).to_string());
            if rx2 == rx { rx2 = None; }
            c.push(format!("BUILD u {} {}", filters_str(&fs), rx2.as_ref().map_or("_".into(), |x| format!("r{}", hexs(x)))));
            for (id, x) in [("u", &rx2), ("s", &rx)] {
                c.push(format!("SET {id}"));
                for _ in 0..r.range(3, 6) {
                    let tg = r.pick(&tgs).clone();
                    let l = r.range(1, 5);
                    let msg = r.pick_s(&MSGS).to_string();
                    let mt = x.as_ref().map_or(true, |x| regex::Regex::new(x).unwrap().is_match(&msg));
                    c.push(format!("LOG {l} {} _ {} {}", hexs(&tg), if mt { 1 } else { 0 }, hexs(&msg)));
                }
            }
        }
        // brace targets with registered writers: gate/enabled query vs delivery (ceiling strictly above the level)
        for w in &wnames {
            let l = r.range(1, 5);
            // `_Default` next to a writer is kept out of the random stream: enabled() judges such a
            // target on the target string (known finding C02-default-in-braces, directed corpus case)
            let tg = if r.chance(1, 2) { format!("{{{w}}}") } else { format!("{{{w},Unknown}}") };
            let mt = rx.as_ref().map_or(true, |x| regex::Regex::new(x).unwrap().is_match("x"));
            c.push(format!("LOG {l} {} m{} {} {}", hexs(&tg), hexs("mod1"), if mt { 1 } else { 0 }, hexs("x")));
        }
        // without any additional writer: a target `{_Default}` still addresses the default channel, and
        // the specification judges the record's MODULE path (not the text of the target)
        if wnames.is_empty() {
            for _ in 0..3 {
                let tg = r.pick(&tgs).clone();
                let l = r.range(1, 5);
                let mt = rx.as_ref().map_or(true, |x| regex::Regex::new(x).unwrap().is_match("x"));
                c.push(format!("LOG {l} {} m{} {} {}", hexs("{_Default}"), hexs(&tg), if mt { 1 } else { 0 }, hexs("x")));
            }
        }
        c.push("END".into());
        cases.push(c);
    }
    cases
}

pub fn gen_c05(tier: &str, seed: u64) -> Vec<Vec<String>> {
    let mut root = Rng::new(seed ^ 0xC05);
    let mut cases = Vec::new();
    // the reconfiguration methods take effect as a whole also when two handle clones call them at
    // the same time (schedules of C12: calls parked inside the critical section, push/pop on clones)
    let (races, parked): (Vec<_>, Vec<_>) = gen_c12(tier, seed ^ 0xC05C).into_iter().partition(|c| c[0].contains("C12 f"));
    cases.extend(races.into_iter().chain(parked.into_iter().take(if tier == "thorough" { 300 } else { 30 })).map(|mut c| { c[0] = c[0].replacen("C12 ", "C05 c", 1); c }));
    for k in 0..n_cases(tier, 300, 5000) {
        let mut r = root.fork();
        let mut c = vec![format!("CASE spec C05 {k}")];
        // additional writers with their own ceilings (incl. ones below what the specifications
        // enable): the gate after every change is the maximum over the active specification AND them
        if r.chance(1, 3) {
            for i in 0..r.range(1, 2) {
                c.push(format!("WRITER {} {}", hexs(&format!("W{i}")), r.below(6)));
            }
        }
        let nspecs = r.range(2, 5);
        let mut all_names: Vec<String> = Vec::new();
        let mut ids = Vec::new();
        let mut prev: Option<(Vec<(Option<String>, u64)>, Option<String>)> = None;
        for i in 0..nspecs {
            // now and then two specifications that differ ONLY in the text filter
            let twin = prev.is_some() && r.chance(1, 3);
            let fs = if twin { prev.as_ref().unwrap().0.clone() } else { gen_filters(&mut r, 3) };
            all_names.extend(fs.iter().filter_map(|f| f.0.clone()));
            let mut rx = if r.chance(1, 5) || twin { Some(r.pick(&REGEXES).to_string()) } else { None };
            if twin && rx == prev.as_ref().unwrap().1 { rx = None; }
            c.push(format!("BUILD s{i} {} {}", filters_str(&fs), rx.as_ref().map_or("_".into(), |x| format!("r{}", hexs(x)))));
            ids.push(format!("s{i}"));
            prev = Some((fs, rx));
        }
        let tgs = targets_for(&mut r, &all_names);
        let grid = format!("GRID {}", tgs.iter().map(|t| hexs(t)).collect::<Vec<_>>().join(" "));
        if r.chance(1, 4) { c.push("LINEFILTER".into()); }
        c.push(format!("INIT {}", ids[0]));
        c.push(grid.clone());
        let nops = r.range(3, if tier == "thorough" { 25 } else { 14 });
        let mut depth = 0u64;
        for _ in 0..nops {
            match r.below(10) {
                0 | 1 => c.push(format!("SET {}", r.pick(&ids))),
                2 | 3 => { c.push(format!("PUSH {}", r.pick(&ids))); depth += 1; }
                4 | 5 => { c.push("POP".into()); depth = depth.saturating_sub(1); }
                6 | 7 => {
                    // well-formed / malformed string through parse_new_spec
                    let (text, ok, fs) = gen_spec_string(&mut r);
                    if ok || fs.is_some() {
                        c.push(format!("NOTE {} {} _", if ok { "ok" } else { "err" }, filters_str(fs.as_deref().unwrap_or(&[]))));
                    }
                    c.push(format!("PARSENEW {} 1", hexs(&text)));
                }
                _ => {
                    let (text, ok, fs) = gen_spec_string(&mut r);
                    if ok || fs.is_some() {
                        c.push(format!("NOTE {} {} _", if ok { "ok" } else { "err" }, filters_str(fs.as_deref().unwrap_or(&[]))));
                    }
                    c.push(format!("PARSEPUSH {} 1", hexs(&text)));
                    if ok { depth += 1; }
                }
            }
            c.push(grid.clone());
            if r.chance(1, 4) {
                let tg = r.pick(&tgs).clone();
                let msg = r.pick(&MSGS).to_string();
                c.push(format!("LOG {} {} _ {} {}", r.range(1, 5), hexs(&tg), match_list(&msg), hexs(&msg)));
            }
        }
        for _ in 0..depth + 2 {
            c.push("POP".into());
            c.push(grid.clone());
        }
        c.push("END".into());
        cases.push(c);
    }
    cases
}

/// a spec string with its expected verdict and (if known) its well-formed parts
fn gen_spec_string(r: &mut Rng) -> (String, bool, Option<Vec<(Option<String>, u64)>>) {
    let fs = gen_filters(r, 3);
    // duplicates/two defaults are excluded by construction
    let good = render_spec(r, &fs);
    if r.chance(3, 5) {
        return (good, true, Some(fs));
    }
    // malformed: inject one bad part
    let bad = *r.pick(&["a=b=c", "x y", "m=nolevel", "a b=info", "=x=", "q = in fo"]);
    let mut parts: Vec<String> = if good.is_empty() { vec![] } else { good.split(',').map(str::to_string).collect() };
    let pos = r.below(parts.len() as u64 + 1) as usize;
    parts.insert(pos, bad.to_string());
    (parts.join(","), false, Some(fs))
}

pub fn gen_c17(tier: &str, seed: u64) -> Vec<Vec<String>> {
    let mut root = Rng::new(seed ^ 0xC17);
    let mut cases = Vec::new();
    let alphabet: Vec<&str> = vec!["a", "b", "crate1", "::", "mod", "=", "=", ",", ",", "/", " ", "\t", "info", "DEBUG", "Warn", "off", "trace", "error", "1", "é", "\u{a0}", "\u{212a}", "\u{130}", "x y", "foo", "[", "(", "\u{2003}"];
    for k in 0..n_cases(tier, 400, 8000) {
        let mut r = root.fork();
        let mut c = vec![format!("CASE spec C17 {k}")];
        match r.below(4) {
            0 => {
                // structured spec -> Display / TOML round trips
                let fs = gen_filters(&mut r, 5);
                c.push(format!("BUILD s {} _", filters_str(&fs)));
                c.push("DISPLAYSORTED s".into());
                c.push("TOML s".into());
                let names: Vec<String> = fs.iter().filter_map(|f| f.0.clone()).collect();
                for tg in targets_for(&mut r, &names) {
                    for l in GRID_LEVELS { c.push(format!("EN s {l} {}", hexs(&tg))); }
                }
            }
            1 => {
                // well-formed or single-fault strings with known salvage
                let (text, ok, fs) = gen_spec_string(&mut r);
                let (text, ok, rxok, rx) = match r.below(6) {
                    0 => (format!("{text}/foo"), ok, true, Some("foo".to_string())),
                    1 => (format!("{text}/["), false, false, None),
                    _ => (text, ok, true, None),
                };
                c.push(format!("NOTE {} {} {}", if ok { "ok" } else { "err" }, filters_str(fs.as_deref().unwrap()), rx.as_ref().map_or("_".into(), |x| format!("r{}", hexs(x)))));
                c.push(format!("PARSE s {} {}", hexs(&text), if rxok { 1 } else { 0 }));
                c.push("DISPLAY s".into());
                c.push("TOML s".into());
            }
            2 => {
                // too many slashes: nothing salvaged
                let (text, _, _) = gen_spec_string(&mut r);
                let text = format!("{text}/a/b");
                c.push("NOTE err - _".to_string());
                c.push(format!("PARSE s {} 1", hexs(&text)));
            }
            _ => {
                // strings over the spec alphabet / arbitrary unicode
                let n = r.range(0, 12);
                let mut text = String::new();
                for _ in 0..n { let a: &str = *r.pick(&alphabet[..]); text.push_str(a); }
                let rx_part = text.split('/').nth(1).map(str::to_string);
                let rxok = rx_part.as_ref().map_or(true, |x| regex::Regex::new(x).is_ok());
                c.push(format!("PARSE s {} {}", hexs(&text), if rxok { 1 } else { 0 }));
                for tg in ["", "a", "crate1::mod", "ab", "info"] {
                    for l in [1u64, 3, 5] { c.push(format!("EN s {l} {}", hexs(tg))); }
                }
            }
        }
        if r.chance(1, 3) {
            // the specification taken from the environment (RUST_LOG unset / well-formed / malformed)
            // with and without a fallback string; decisions of the result on a small grid
            let rxbit = |t: &str| -> u8 { t.split('/').nth(1).map_or(1, |x| u8::from(regex::Regex::new(x).is_ok())) };
            let pick = |r: &mut Rng| -> String {
                match r.below(5) {
                    0 => { let n = r.range(0, 8); let mut t = String::new(); for _ in 0..n { let a: &str = *r.pick(&alphabet[..]); t.push_str(a); } t }
                    1 => { let (t, _, _) = gen_spec_string(r); format!("{t}/[") }
                    _ => gen_spec_string(r).0,
                }
            };
            let envv = if r.chance(1, 4) { None } else { Some(pick(&mut r)) };
            let given = pick(&mut r);
            let mode = if r.chance(1, 3) { "env" } else { "envor" };
            c.push(format!("ENVPARSE e {mode} {} {} {} {}", envv.as_ref().map_or("~".to_string(), |v| hexs(v)), hexs(&given),
                envv.as_ref().map_or(1, |v| rxbit(v)), rxbit(&given)));
            for tg in ["", "a", "crate1::mod", "b", "info"] {
                for l in [1u64, 3, 5] { c.push(format!("EN e {l} {}", hexs(tg))); }
            }
        }
        c.push("END".into());
        cases.push(c);
    }
    cases
}


/// all interleavings of the two steps of 2..3 concurrent calls (start before finish per call),
/// restricted to at most one call waiting for the lock at any time
pub fn gen_c12(tier: &str, seed: u64) -> Vec<Vec<String>> {
    let mut root = Rng::new(seed ^ 0xC12);
    let mut cases = Vec::new();
    fn interleavings(n: usize) -> Vec<Vec<(bool, usize)>> {
        // (is_start, tid)
        fn rec(n: usize, started: &mut Vec<bool>, finished: &mut Vec<bool>, cur: &mut Vec<(bool, usize)>, out: &mut Vec<Vec<(bool, usize)>>) {
            if cur.len() == 2 * n { out.push(cur.clone()); return; }
            for t in 0..n {
                if !started[t] { started[t] = true; cur.push((true, t)); rec(n, started, finished, cur, out); cur.pop(); started[t] = false; }
                else if !finished[t] { finished[t] = true; cur.push((false, t)); rec(n, started, finished, cur, out); cur.pop(); finished[t] = false; }
            }
        }
        let mut out = Vec::new();
        rec(n, &mut vec![false; n], &mut vec![false; n], &mut Vec::new(), &mut out);
        out
    }
    let mut k = 0;
    let reps = if tier == "thorough" { 8 } else { 2 };
    // calls that are entered (and may already have LOOKED at shared state) before another call
    // runs from start to end; maximum levels that coincide with the one in force
    for _ in 0..(if tier == "thorough" { 200 } else { 24 }) {
        let mut r = root.fork();
        let mut c = vec![format!("CASE spec C12 e{k}")];
        k += 1;
        if r.chance(1, 3) { c.push(format!("WRITER {} {}", hexs("W0"), r.below(6))); }
        let lo = r.range(1, 4);                 // level in force, and of the late call
        let la = r.below(lo);                   // the call in between is more restrictive
        let m = r.pick_s(&["chatty", "a::b"]).to_string();
        // text filters: the call that is entered first (and finishes last) has one and the call in
        // between has none, or the other way round, or both — what is in force at the end is the
        // specification of the last call AS A WHOLE, text filter included
        let rx1 = if r.chance(2, 3) { Some(r.pick(&REGEXES).to_string()) } else { None };
        let rx0 = if r.chance(1, 3) { Some(r.pick(&REGEXES).to_string()) } else { None };
        let rxs = |x: &Option<String>| x.as_ref().map_or("_".to_string(), |x| format!("r{}", hexs(x)));
        c.push(format!("BUILD s2 _:{lo} _"));
        c.push(format!("BUILD s0 _:{la} {}", rxs(&rx0)));
        c.push(format!("BUILD s1 _:{},n{}:{lo} {}", r.below(lo + 1), hexs(&m), rxs(&rx1)));
        let tgs = targets_for(&mut r, &[m.clone()]);
        let grid: String = tgs.iter().map(|t| hexs(t)).collect::<Vec<_>>().join(" ");
        c.push("INIT s2".into());
        c.push("CENTER 1 s1".into());
        c.push("CSTART 0 s0".into());
        let early = r.chance(1, 3);
        if early { c.push("CGO 1 s1".into()); }                // asks for the lock while it is held
        c.push("CFINISH 0".into());
        if !early { c.push("CGO 1 s1".into()); }
        c.push("CFINISH 1".into());
        c.push("CFINISH 1".into());
        c.push(format!("CQUIET {grid}"));
        c.push(format!("GRID {grid}"));
        for _ in 0..4 {
            let tg = r.pick(&tgs).clone();
            let msg = r.pick_s(&MSGS).to_string();
            let mt = rx1.as_ref().map_or(true, |x| regex::Regex::new(x).unwrap().is_match(&msg));
            c.push(format!("LOG {} {} _ {} {}", r.range(1, 5), hexs(&tg), if mt { 1 } else { 0 }, hexs(&msg)));
        }
        c.push("END".into());
        cases.push(c);
    }
    // push / pop on handle clones (every clone has its own stack), overlapping with changes on
    // other clones: a push that arrives while a change holds the lock saves the specification of
    // THAT change; the pop afterwards re-activates it with its own maximum level
    for _ in 0..(if tier == "thorough" { 300 } else { 30 }) {
        let mut r = root.fork();
        let mut c = vec![format!("CASE spec C12 p{k}")];
        k += 1;
        if r.chance(1, 3) { c.push(format!("WRITER {} {}", hexs("W0"), r.below(6))); }
        let m = r.pick_s(&["chatty", "a::b"]).to_string();
        let lv: Vec<u64> = (0..4).map(|_| r.below(6)).collect();
        c.push(format!("BUILD s0 _:{} _", lv[0]));
        c.push(format!("BUILD s1 _:{},n{}:{} _", lv[1], hexs(&m), r.below(6)));
        c.push(format!("BUILD s2 _:{} _", lv[2]));
        c.push(format!("BUILD s3 _:{},n{}:{} _", lv[3], hexs(&m), r.below(6)));
        let tgs = targets_for(&mut r, &[m.clone()]);
        let grid: String = tgs.iter().map(|t| hexs(t)).collect::<Vec<_>>().join(" ");
        c.push("INIT s3".into());
        match r.below(4) {
            0 | 1 => {
                // the push arrives while a change is in its critical section
                c.push("CSTART 0 s0".into());
                c.push("CPUSH 1 s1".into());
                c.push("CFINISH 0".into());
                c.push("CFINISH 1".into());
                if r.chance(1, 2) { c.push("CSTART 0 s2".into()); c.push("CFINISH 0".into()); }
                c.push("CPOP 1".into());
                c.push("CFINISH 1".into());
            }
            2 => {
                // a change arrives while the push is in its critical section
                c.push("CPUSH 1 s1".into());
                c.push("CSTART 0 s0".into());
                c.push("CFINISH 1".into());
                c.push("CFINISH 0".into());
                c.push("CPOP 1".into());
                if r.chance(1, 2) { c.push("CSTART 0 s2".into()); c.push("CFINISH 1".into()); c.push("CFINISH 0".into()); } else { c.push("CFINISH 1".into()); }
            }
            _ => {
                // two clones push one after the other and pop in either order
                c.push("CPUSH 1 s1".into());
                c.push("CFINISH 1".into());
                c.push("CPUSH 2 s2".into());
                c.push("CFINISH 2".into());
                let (a, b) = if r.chance(1, 2) { (1, 2) } else { (2, 1) };
                c.push(format!("CPOP {a}"));
                c.push(format!("CSTART 0 s0"));
                c.push(format!("CFINISH {a}"));
                c.push("CFINISH 0".into());
                c.push(format!("CPOP {b}"));
                c.push(format!("CFINISH {b}"));
            }
        }
        c.push(format!("CQUIET {grid}"));
        c.push(format!("GRID {grid}"));
        c.push("END".into());
        cases.push(c);
    }
    // free-running races: specifications that differ in module filters, maximum level AND text filter
    for _ in 0..(if tier == "thorough" { 40 } else { 10 }) {
        let mut r = root.fork();
        let mut c = vec![format!("CASE spec C12 f{k}")];
        k += 1;
        let n = r.range(2, 3);
        let rxs = ["alpha", "beta", "a|t"];
        for i in 0..=n {
            let mods = ["ma", "mb::x", "mc"];
            let fs = format!("_:{},n{}:{}", r.range(1, 4), hexs(mods[(i % 3) as usize]), r.range(2, 5));
            let rx = if i < n { format!("r{}", hexs(rxs[(i % 3) as usize])) } else { "_".to_string() };
            c.push(format!("BUILD s{i} {fs} {rx}"));
        }
        c.push(format!("INIT s{n}"));
        c.push(format!("CRACE {} s{n} {}", if tier == "thorough" { 4000 } else { 2000 }, (0..n).map(|i| format!("s{i}")).collect::<Vec<_>>().join(" ")));
        c.push("END".into());
        cases.push(c);
    }
    for n in [2usize, 3] {
        let all = interleavings(n);
        for sched in all {
            // simulate the lock: drop schedules with two waiters
            let mut lock: Option<usize> = None;
            let mut waiting: Vec<usize> = vec![];
            let mut ok = true;
            for (is_start, t) in &sched {
                if *is_start {
                    if lock.is_none() { lock = Some(*t); } else { waiting.push(*t); if waiting.len() > 1 { ok = false; } }
                } else if lock == Some(*t) {
                    lock = if waiting.is_empty() { None } else { Some(waiting.remove(0)) };
                }
            }
            if !ok { continue; }
            if n == 3 && tier != "thorough" && root.below(2) != 0 { continue; }
            for _ in 0..reps {
                let mut r = root.fork();
                let mut c = vec![format!("CASE spec C12 {k}")];
                k += 1;
                if r.chance(1, 3) { c.push(format!("WRITER {} {}", hexs("W0"), r.below(6))); }
                let mut names: Vec<String> = Vec::new();
                // specs with different maximum levels and module sets
                for i in 0..=n {
                    let mut fs = gen_filters(&mut r, 2);
                    if fs.is_empty() { fs.push((None, (i as u64 * 2 + 1) % 6)); }
                    names.extend(fs.iter().filter_map(|f| f.0.clone()));
                    c.push(format!("BUILD s{i} {} _", filters_str(&fs)));
                }
                let tgs = targets_for(&mut r, &names);
                let grid: String = tgs.iter().map(|t| hexs(t)).collect::<Vec<_>>().join(" ");
                c.push(format!("INIT s{n}"));
                for (is_start, t) in &sched {
                    if *is_start { c.push(format!("CSTART {t} s{t}")); } else { c.push(format!("CFINISH {t}")); }
                }
                // whatever was blocked is finished now, in thread order
                for t in 0..n { c.push(format!("CFINISH {t}")); }
                for t in 0..n { c.push(format!("CFINISH {t}")); }
                c.push(format!("CQUIET {grid}"));
                c.push(format!("GRID {grid}"));
                c.push("END".into());
                cases.push(c);
            }
        }
    }
    cases
}

pub fn gen_c13(tier: &str, seed: u64) -> Vec<Vec<String>> {
    let mut root = Rng::new(seed ^ 0xC13);
    let mut cases = Vec::new();
    let n = if tier == "thorough" { 4000 } else { 300 };
    for k in 0..n {
        let mut r = root.fork();
        let mut c = vec![format!("CASE spec C13 {k}")];
        if r.chance(1, 5) {
            // duplication table incl. run-time adaptation (child process captures stderr/stdout)
            if r.chance(1, 3) { c.push("NOTE dupcapture".into()); }
            c.push(format!("DUPINIT {} {}", r.below(7), r.below(7)));
            for i in 0..r.range(4, 12) {
                if r.chance(1, 4) {
                    c.push(format!("DUPADAPT {} {}", r.pick_s(&["err", "out"]), r.below(7)));
                }
                c.push(format!("DUPLOG {} {}", r.range(1, 5), hexs(&format!("dup-marker-{i}-"))));
            }
            c.push("END".into());
            cases.push(c);
            continue;
        }
        let kinds = ["rec", "rec", "flw", "syslog"];
        let nw = if r.chance(1, 6) { 0 } else { r.range(1, 4) };   // also: no additional writer at all
        let mut wnames: Vec<String> = Vec::new();
        for i in 0..nw {
            let name = format!("W{i}");
            c.push(format!("WRITER {} {} {}", hexs(&name), r.below(6), r.pick_s(&kinds)));
            wnames.push(name);
        }
        let fs = gen_filters(&mut r, 2);
        let rx = if r.chance(1, 4) { Some(r.pick_s(&REGEXES).to_string()) } else { None };
        c.push(format!("BUILD s {} {}", filters_str(&fs), rx.as_ref().map_or("_".into(), |x| format!("r{}", hexs(x)))));
        if r.chance(1, 4) { c.push("LINEFILTER".into()); }
        c.push("INIT s".into());
        let modules: Vec<String> = fs.iter().filter_map(|f| f.0.clone()).chain(["other".to_string()]).collect();
        for _ in 0..r.range(4, 14) {
            // brace list over registered names, unknown names and _Default, any order; mostly distinct
            let mut pool: Vec<String> = wnames.clone();
            pool.push("_Default".into());
            pool.push("Nope".into());
            pool.push("".into());
            let len = r.range(0, 4) as usize;
            let mut list: Vec<String> = Vec::new();
            for _ in 0..len {
                let cand = r.pick(&pool).clone();
                if !list.contains(&cand) || r.chance(1, 10) { list.push(cand); }
            }
            let tg = if r.chance(1, 8) { r.pick(&modules).clone() } else { format!("{{{}}}", list.join(",")) };
            let l = r.range(1, 5);
            let msg = r.pick_s(&MSGS).to_string();
            let mt = rx.as_ref().map_or(true, |x| regex::Regex::new(x).unwrap().is_match(&msg));
            let module = if r.chance(3, 4) { { let mm: &String = r.pick(&modules[..]); format!("m{}", hexs(mm)) } } else { "_".into() };
            c.push(format!("LOG {l} {} {module} {} {}", hexs(&tg), mt as u8, hexs(&msg)));
        }
        c.push("END".into());
        cases.push(c);
    }
    cases
}


/// child mode: `fvh child dup <dir> <DUP ops...>` — logs through a real Logger with duplication;
/// the parent captures stderr and stdout
pub fn child_dup(args: &[String]) {
    use flexi_logger::Duplicate;
    let dir = std::path::PathBuf::from(&args[0]);
    let dup = |d: u64| match d { 0 => Duplicate::None, 1 => Duplicate::Error, 2 => Duplicate::Warn, 3 => Duplicate::Info, 4 => Duplicate::Debug, 5 => Duplicate::Trace, _ => Duplicate::All };
    let mut built: Option<(Box<dyn Log>, LoggerHandle)> = None;
    let mut capture = false;
    for op in &args[1..] {
        let t = tokens(op);
        match t.as_slice() {
            ["DUPCAPTURE"] => capture = true,
            ["DUPINIT", e, o] => {
                built = Some(Logger::with(LogSpecification::trace())
                    .log_to_file(flexi_logger::FileSpec::default().directory(&dir).basename("dup").suppress_timestamp())
                    .write_mode(if capture { flexi_logger::WriteMode::SupportCapture } else { flexi_logger::WriteMode::Direct })
                    .format(crate::props::flw::raw_format)
                    .duplicate_to_stderr(dup(e.parse().unwrap()))
                    .duplicate_to_stdout(dup(o.parse().unwrap()))
                    .build().unwrap());
            }
            ["DUPADAPT", which, d] => {
                let h = &mut built.as_mut().unwrap().1;
                if *which == "err" { h.adapt_duplication_to_stderr(dup(d.parse().unwrap())).unwrap(); } else { h.adapt_duplication_to_stdout(dup(d.parse().unwrap())).unwrap(); }
            }
            ["DUPLOG", lvl, msg] => {
                let msg = unhexs(msg).unwrap();
                built.as_ref().unwrap().0.log(&Record::builder().level(level(lvl.parse().unwrap())).target("m").module_path(Some("m")).args(format_args!("{}", msg)).build());
            }
            _ => {}
        }
    }
    if let Some((_, h)) = built { h.flush(); drop(h); }
}
