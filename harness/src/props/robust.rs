//! C10: robustness stream — nasty targets/messages/spec strings, nasty file-name configurations and
//! directory contents, recursive logging (hang detection) in a child process.
use crate::props::flwgen::{pack, record};
use crate::util::{hex, hexs, unhex, Rng};
use flexi_logger::{LogSpecification, Logger, WriteMode};
use log::{Log, Record};
use std::sync::OnceLock;

static LOGGER: OnceLock<Box<dyn Log>> = OnceLock::new();

struct Recursive(u32);
impl std::fmt::Display for Recursive {
    fn fmt(&self, f: &mut std::fmt::Formatter) -> std::fmt::Result {
        // a log call from within a Display implementation
        if self.0 > 1 {
            // … whose argument logs again, one level further down
            LOGGER.get().unwrap().log(&Record::builder().level(log::Level::Info).target("t").args(format_args!("inner{} {}", self.0, Recursive(self.0 - 1))).build());
        } else {
            let inner = format!("inner{}", self.0);
            LOGGER.get().unwrap().log(&Record::builder().level(log::Level::Info).target("t").args(format_args!("{}", inner)).build());
        }
        write!(f, "x{}", self.0)
    }
}

/// child: `fvh child recurse <mode> <out|err|file> <dir>`
pub fn child_recurse(args: &[String]) {
    let mode = match args[0].split(':').collect::<Vec<_>>().as_slice() {
        ["direct"] => WriteMode::Direct,
        ["buf", c] => WriteMode::BufferDontFlushWith(c.parse().unwrap()),
        ["async", p, m] => WriteMode::AsyncWith { pool_capa: p.parse().unwrap(), message_capa: m.parse().unwrap(), flush_interval: std::time::Duration::from_secs(0) },
        _ => panic!("mode"),
    };
    let mut l = Logger::with(LogSpecification::trace()).format(crate::props::flw::raw_format).write_mode(mode);
    l = match args[1].as_str() {
        "out" => l.log_to_stdout(),
        "err" => l.log_to_stderr(),
        _ => l.log_to_file(flexi_logger::FileSpec::default().directory(&args[2]).basename("rec").suppress_timestamp()),
    };
    if args.get(4).map(String::as_str) == Some("crlf") {
        l = l.use_windows_line_ending();
    }
    let (boxed, handle) = l.build().unwrap();
    let _ = LOGGER.set(boxed);
    let depth: u32 = args.get(3).and_then(|d| d.parse().ok()).unwrap_or(1);
    LOGGER.get().unwrap().log(&Record::builder().level(log::Level::Info).target("t").args(format_args!("outer {}", Recursive(depth))).build());
    LOGGER.get().unwrap().log(&Record::builder().level(log::Level::Info).target("t").args(format_args!("plain")).build());
    handle.shutdown();
    std::process::exit(0);
}

/// runs the child with a watchdog; returns (finished, captured stream or file content)
/// child: `fvh child buflog <max> <len,len,…>` — the in-memory log target (`log_to_buffer`): logs one
/// record per length and prints which records the snapshot holds afterwards (`index/length …`)
/// child: `fvh child bufframe <max> <hex message>...` — the messages go to the in-memory log target;
/// prints the snapshot text as hex
pub fn child_bufframe(args: &[String]) {
    let max: usize = args[0].parse().unwrap();
    let (boxed, handle) = Logger::with(LogSpecification::trace()).log_to_buffer(max, Some(crate::props::flw::raw_format)).build().unwrap();
    for h in &args[1..] {
        let m = crate::util::unhexs(h).unwrap();
        boxed.log(&log::Record::builder().level(log::Level::Info).target("t").args(format_args!("{}", m)).build());
    }
    let mut snap = flexi_logger::Snapshot::new();
    let _ = handle.update_snapshot(&mut snap);
    println!("{}", crate::util::hexs(&snap.text));
    std::mem::forget(handle);
    std::process::exit(0);
}

/// C20 for the in-memory log target: message texts with and without line breaks at the end
pub fn gen_bufframe(tier: &str, seed: u64) -> Vec<Vec<String>> {
    let mut r = crate::util::Rng::new(seed ^ 0xBF4A);
    let mut cases = Vec::new();
    for k in 0..(if tier == "thorough" { 60 } else { 12 }) {
        let msgs: Vec<String> = (0..r.range(1, 8)).map(|i| {
            let body = format!("{i}:{}", "x".repeat(r.below(12) as usize));
            crate::util::hexs(&match r.below(6) { 0 => format!("{body}\n"), 1 => format!("{body}\n\n"), 2 => format!("{body}\r\n"), 3 => format!("a\nb {body}"), _ => body })
        }).collect();
        // (no empty format output here: the in-memory target skips it by design — `if !logline.is_empty()` —,
        //  which `Model/Buf` mirrors; see DESIGN 11.9)
        cases.push(vec![format!("CASE std C20 bf{k}"), format!("BUFFRAME 100000 {}", msgs.join(" ")), "END".into()]);
    }
    cases
}

pub fn child_buflog(args: &[String]) {
    let max: usize = args[0].parse().unwrap();
    let (boxed, handle) = Logger::with(LogSpecification::trace()).log_to_buffer(max, Some(crate::props::flw::raw_format)).build().unwrap();
    for (i, len) in args[1].split(',').map(|x| x.parse::<usize>().unwrap()).enumerate() {
        let mut m = if len == 0 { String::new() } else { format!("{i}:") };
        while m.len() < len { m.push((b'a' + (i % 26) as u8) as char); }
        boxed.log(&log::Record::builder().level(log::Level::Info).target("t").args(format_args!("{}", m)).build());
    }
    let mut snap = flexi_logger::Snapshot::new();
    let _ = handle.update_snapshot(&mut snap);
    let held: Vec<String> = snap.text.lines().map(|l| format!("{}/{}", l.split(':').next().unwrap_or("?"), l.len())).collect();
    println!("{}", if held.is_empty() { "-".to_string() } else { held.join(" ") });
    std::mem::forget(handle);
    std::process::exit(0);
}

/// runs the child under a watchdog; `None` = it did not end within `secs` seconds
pub fn run_buflog(max: &str, lens: &str, secs: u64) -> Option<String> {
    let exe = std::env::current_exe().unwrap();
    let mut child = std::process::Command::new(exe).arg("child").arg("buflog").arg(max).arg(lens)
        .stdout(std::process::Stdio::piped()).stderr(std::process::Stdio::null()).spawn().expect("child");
    let t0 = std::time::Instant::now();
    let mut finished = false;
    while t0.elapsed().as_secs() < secs {
        if child.try_wait().unwrap().is_some() { finished = true; break; }
        std::thread::sleep(std::time::Duration::from_millis(5));
    }
    if !finished { let _ = child.kill(); }
    let o = child.wait_with_output().unwrap();
    if finished { Some(String::from_utf8_lossy(&o.stdout).trim().to_string()) } else { None }
}

pub fn run_recurse(ctx_work: &std::path::Path, mode: &str, target: &str, secs: u64, depth: u32, crlf: bool) -> (bool, Vec<u8>) {
    let dir = ctx_work.join(format!("recurse-{}", std::process::id()));
    let _ = std::fs::remove_dir_all(&dir);
    std::fs::create_dir_all(&dir).unwrap();
    let exe = std::env::current_exe().unwrap();
    let mut child = std::process::Command::new(exe).arg("child").arg("recurse").arg(mode).arg(target).arg(&dir).arg(depth.to_string()).arg(if crlf { "crlf" } else { "lf" })
        .stdout(std::process::Stdio::piped()).stderr(std::process::Stdio::piped()).spawn().expect("child");
    let t0 = std::time::Instant::now();
    let mut finished = false;
    while t0.elapsed().as_secs() < secs {
        if child.try_wait().unwrap().is_some() { finished = true; break; }
        std::thread::sleep(std::time::Duration::from_millis(10));
    }
    if !finished { let _ = child.kill(); }
    let o = child.wait_with_output().unwrap();
    let data = match target { "out" => o.stdout, "err" => o.stderr, _ => std::fs::read(dir.join("rec.log")).unwrap_or_default() };
    let _ = std::fs::remove_dir_all(&dir);
    (finished, data)
}

const TARGETS: [&str; 22] = ["{", "}", "{}", "{é", "{W0", "{W0,", "{,}", "{{W0}}", "{W0}}", "", "é", "{_Default", "{_Default,é}", "{\u{10000}}", "{W0,W0,W0}", " {W0}", "{ W0 }", "{_Default}", "{\u{0}}", "a::b", "{W0,_Default,Nope}", "{\u{fffd}\u{fffd}"];

pub fn gen_c10(tier: &str, seed: u64) -> Vec<Vec<String>> {
    let mut root = Rng::new(seed ^ 0xC10);
    let mut cases = Vec::new();
    let n = if tier == "thorough" { 3000 } else { 250 };
    let long_target = format!("{{{}", "a".repeat(5000));
    let long_msg = "m".repeat(100_000);
    for k in 0..n {
        let mut r = root.fork();
        if k % 2 == 0 {
            // (a) records and specification strings
            let mut c = vec![format!("CASE spec C10 {k}")];
            if r.chance(2, 3) { c.push(format!("WRITER {} {} rec", hexs("W0"), r.below(6))); }
            c.push(format!("BUILD s _:{} {}", r.below(6), if r.chance(1, 3) { format!("r{}", hexs("a|b")) } else { "_".into() }));
            c.push("INIT s".into());
            for _ in 0..r.range(5, 15) {
                let tg = if r.chance(1, 12) { long_target.clone() } else { r.pick_s(&TARGETS).to_string() };
                let msg = match r.below(6) { 0 => String::new(), 1 => "multi\nline\n".into(), 2 => "ünï 日本 🦀".into(), 3 if tier == "thorough" || r.chance(1, 4) => long_msg.clone(), _ => "plain a".into() };
                let mt = regex::Regex::new("a|b").unwrap().is_match(&msg);
                let module = match r.below(3) { 0 => "_".to_string(), 1 => format!("m{}", hexs("é::x")), _ => format!("m{}", hexs("")) };
                if r.chance(1, 3) { c.push(format!("Q {} {}", r.range(1, 5), hexs(&tg))); }
                c.push(format!("LOG {} {} {module} {} {}", r.range(1, 5), hexs(&tg), mt as u8, hexs(&msg)));
            }
            let alphabet = ["a", "=", ",", "/", " ", "info", "é", "\u{0}", "\u{10ffff}", "{", "}", "\n", "::", "debug", "\u{212a}", "[", "\\"];
            for i in 0..r.range(2, 6) {
                let mut text = String::new();
                for _ in 0..r.range(0, 14) { text.push_str(r.pick_s(&alphabet)); }
                let rxok = text.split('/').nth(1).map_or(true, |x| regex::Regex::new(x).is_ok());
                if r.chance(1, 2) { c.push(format!("PARSE p{i} {} {}", hexs(&text), rxok as u8)); if rxok && r.chance(1, 2) { c.push(format!("STARTSPECFILE p{i}")); } } else { c.push(format!("PARSENEW {} {}", hexs(&text), rxok as u8)); }
            }
            // the empty specification (no filter at all), however it was obtained
            if r.chance(1, 3) {
                c.push(format!("PARSE pe {} 1", r.pick_s(&["-", "20", "202c20", "2c"])));
                c.push("STARTSPECFILE pe".into());
            }
            c.push("END".into());
            cases.push(c);
        } else {
            // (b) file-name configurations and directory contents
            let mut c = vec![format!("CASE robust C10 {k}")];
            let basename = r.pick_s(&["app", "", "a.b", "ünï", "x_r", "r", "app.", ".app"]);
            let discr = r.pick_s(&["_", "_", "sd", "sr1", "sé", "s"]);
            let discr = if basename.is_empty() && discr == "_" { "sd" } else { discr };
            let discr = match discr { "_" => "_".to_string(), x => format!("s{}", hexs(&x[1..])) };
            let suffix = match r.below(7) { 0 => "_".to_string(), 1 => format!("s{}", hexs("a.b")), 2 => format!("s{}", hexs("txt")), 3 => format!("s{}", hexs("restart")), 4 => format!("s{}", hexs("é")), _ => format!("s{}", hexs("log")) };
            let naming = r.pick_s(&["num", "numd", "ts", "tsd"]);
            let fmt = if naming.starts_with("ts") { r.below(3) } else { 0 };
            let cur = if naming == "ts" && r.chance(1, 3) { format!("s{}", hexs(r.pick_s(&["c", "rNOW", "é"]))) } else { "_".into() };
            c.push(format!("SPEC {} {discr} {suffix} {cur} {fmt}", hexs(basename)));
            c.push("NOTE nocheck-foreign".into());
            let cleanup = r.pick_s(&["never", "1,1", "0,2", "2,0"]);
            let append = r.chance(1, 2);
            let rot = format!("{};_;{naming};{cleanup}", r.pick(&[0u64, 10, 100]));
            let has_suffix = suffix != "_";
            c.push(format!("CFG {rot} {} _ 0 {}", append as u8, has_suffix as u8));
            // pre-existing content: arbitrary names sharing a prefix with the logger's files
            let fixed = { let mut s = basename.to_string(); if discr != "_" { if !s.is_empty() { s.push('_'); } s.push_str(&String::from_utf8(unhex(&discr[1..]).unwrap()).unwrap()); } s };
            let sfx = if has_suffix { format!(".{}", String::from_utf8(unhex(&suffix[1..]).unwrap()).unwrap()) } else { String::new() };
            let nasty = ["_r00001.foo", "_r00001", "_r", "_r1", "_r99999", "_r100000", "_r3000000000", "_r4294967296", "_rCURRENT", "_r2024-01-01_00-00-00", "_r2024-01-01_00-00-00.restart-x", "_r2024-01-01_00-00-00.restart-", "_r2024-01-01_00-00-00.restart-99999", "_r2024-01-01_00-00-00.restart-9999", "é", "_é", "_ré0001", "", "_", ".", "_r0000é", "_r2024-01-01_00-00-0é", "_r20240101-000000", "_r2024-01-01_00-00-00_x"];
            for _ in 0..r.range(0, 6) {
                let mid = r.pick_s(&nasty);
                let name = match r.below(4) { 0 => format!("{fixed}{mid}"), 1 => format!("{fixed}{mid}{sfx}.gz"), _ => format!("{fixed}{mid}{sfx}") };
                if !name.is_empty() && name != "." && name != ".." && !name.contains('/') {
                    c.push(format!("FOREIGN {} {}", hexs(&name), hexs("x\n")));
                }
            }
            let mut t = 1_704_067_200i64; // 2024-01-01 00:00:00
            let mut seq = 0;
            // in a quarter of the histories the log directory itself vanishes for a while
            let nops = r.range(3, 20);
            let gone_at = if r.chance(1, 4) { Some(r.below(nops)) } else { None };
            for i in 0..nops {
                if gone_at == Some(i) {
                    c.push("RMDIR".into());
                    for _ in 0..r.range(1, 4) {
                        if r.chance(1, 5) { c.push(format!("ROT {} -", pack(t))); }
                        c.push(format!("W {} {} -", hex(&record(seq, r.range(1, 40))), pack(t)));
                        seq += 1;
                        t += *r.pick(&[0i64, 1, 61]);
                    }
                    c.push("MKDIR".into());
                }
                match r.below(10) {
                    0 => c.push(format!("ROT {} -", pack(t))),
                    1 => { c.push("SHUT".into()); c.push(format!("RESTART {rot} {} _ 0 {}", r.chance(1, 2) as u8, has_suffix as u8)); }
                    _ => { c.push(format!("W {} {} -", hex(&record(seq, r.range(1, 40))), pack(t))); seq += 1; }
                }
                t += *r.pick(&[0i64, 0, 1, 61]);
            }
            c.push(format!("ALIVE {}", pack(t)));
            c.push("END".into());
            cases.push(c);
        }
    }
    // (c) recursive logging from a Display implementation, in a child with a watchdog
    for (i, (mode, target)) in [("direct", "file"), ("buf:100", "file"), ("direct", "out"), ("direct", "err"), ("async:5:100", "file"), ("async:5:100", "out"), ("buf:100", "out"), ("buf:8192", "err")].iter().enumerate() {
        cases.push(vec![format!("CASE std C10 rec{i}"), format!("RECURSE {mode} {target}"), "END".into()]);
        for depth in [2u32, 3, 5] {
            cases.push(vec![format!("CASE std C10 rec{i}d{depth}"), format!("RECURSE {mode} {target} {depth}"), "END".into()]);
        }
    }
    // (d) the in-memory log target: records of every length relative to the budget (empty, a few
    //     bytes, exactly the budget, one more, several times the budget), in a child with a watchdog
    let mut rootb = Rng::new(seed ^ 0xC10B);
    for k in 0..(if tier == "thorough" { 400 } else { 40 }) {
        let mut r = rootb.fork();
        let max = *r.pick(&[10u64, 40, 100, 1000]);
        let lens: Vec<String> = (0..r.range(3, 30)).map(|_| match r.below(8) {
            0 => 0,
            1 => max,
            2 => max + 1,
            3 => max * r.range(2, 4),
            4 => (max / 2).max(4),
            _ => r.range(4, max.max(6)),
        }.to_string()).collect();
        cases.push(vec![format!("CASE std C10 buf{k}"), format!("BUFLOG {max} {}", lens.join(",")), "END".into()]);
    }
    cases
}

/// C20: the configured line ending also on the recursive path (a log call from within `Display`)
pub fn gen_c20_recursive(_tier: &str, _seed: u64) -> Vec<Vec<String>> {
    let mut cases = Vec::new();
    for (i, (mode, target)) in [("direct", "file"), ("buf:100", "file"), ("async:5:100", "file")].iter().enumerate() {
        for depth in [1u32, 2, 3] {
            cases.push(vec![format!("CASE std C20 rec{i}d{depth}"), format!("RECURSE {mode} {target} {depth} crlf"), "END".into()]);
        }
    }
    cases
}
