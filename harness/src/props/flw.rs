//! `flw` model family: the real `FileLogWriter` driven by protocol lines.
use crate::props::header_answer;
use crate::util::{hex, hexs, tokens, unhex, unhexs};
use crate::Ctx;
use chrono::{Local, NaiveDate, TimeZone};
use flexi_logger::writers::{ArcFileLogWriter, FileLogWriter, FileLogWriterBuilder, FileLogWriterHandle, LogWriter};
use flexi_logger::{Age, Cleanup, Criterion, DeferredNow, FileSpec, Naming, WriteMode};
use log::Record;
use std::io::{Read, Write};
use std::path::{Path, PathBuf};
use std::sync::atomic::{AtomicUsize, Ordering};
use std::sync::{Arc, Mutex};

/// marker of a record whose FORMATTING fails after part of the line has been produced
pub const FAILFMT: &str = "\u{1}failfmt";
pub fn raw_format(w: &mut dyn Write, _now: &mut DeferredNow, record: &Record) -> std::io::Result<()> {
    if let Some(s) = record.args().as_str() { if s.starts_with(FAILFMT) { write!(w, "partial output of a record whose formatting fails ")?; return Err(std::io::Error::other("format function failed")); } }
    let text = record.args().to_string();
    if text.starts_with(FAILFMT) { write!(w, "partial output of a record whose formatting fails ")?; return Err(std::io::Error::other("format function failed")); }
    w.write_all(text.as_bytes())
}

pub fn stamp_to_local(k: u64) -> chrono::DateTime<Local> {
    let y = (k / 10_000_000_000) as i32;
    let mo = (k / 100_000_000 % 100) as u32;
    let d = (k / 1_000_000 % 100) as u32;
    let h = (k / 10_000 % 100) as u32;
    let mi = (k / 100 % 100) as u32;
    let s = (k % 100) as u32;
    let naive = NaiveDate::from_ymd_opt(y, mo, d).expect("date").and_hms_opt(h, mi, s).expect("time");
    Local.from_local_datetime(&naive).earliest().expect("local time")
}

/// 3 is a legal format whose text order is not the time order (day first)
/// 4 is coarser than a second (date only): several files per name period, told apart by `.restart-NNNN`
pub const FORMATS: [&str; 5] = ["r%Y-%m-%d_%H-%M-%S", "r%Y%m%d-%H%M%S", "r%Y-%m-%d_%H-%M-%S_x", "r%d-%m-%Y_%H-%M-%S", "r%Y-%m-%d"];

#[derive(Clone, Debug)]
pub struct SpecP {
    pub basename: String,
    pub discr: Option<String>,
    pub suffix: Option<String>,
    pub cur: Option<String>,
    pub fmt: usize,
}
#[derive(Clone, Debug)]
pub struct RotP {
    pub max_size: Option<u64>,
    pub age: Option<char>,
    pub naming: String,
    pub cleanup: Option<(usize, usize)>,
}
#[derive(Clone, Debug)]
pub struct CfgP {
    pub rot: Option<RotP>,
    pub append: bool,
    pub cap: Option<usize>,
    pub symlink: bool,
}

pub fn parse_spec(t: &[&str]) -> SpecP {
    let o = |s: &str| if s == "_" { None } else { Some(unhexs(&s[1..]).unwrap()) };
    SpecP { basename: unhexs(t[0]).unwrap(), discr: o(t[1]), suffix: o(t[2]), cur: o(t[3]), fmt: t[4].parse().unwrap() }
}
pub fn parse_cfg(t: &[&str]) -> CfgP {
    let rot = if t[0] == "-" {
        None
    } else {
        let p: Vec<&str> = t[0].split(';').collect();
        Some(RotP {
            max_size: if p[0] == "_" { None } else { Some(p[0].parse().unwrap()) },
            age: if p[1] == "_" { None } else { p[1].chars().next() },
            naming: p[2].to_string(),
            cleanup: if p[3] == "never" { None } else { let (k, m) = p[3].split_once(',').unwrap(); Some((k.parse().unwrap(), m.parse().unwrap())) },
        })
    };
    CfgP { rot, append: t[1] == "1", cap: if t[2] == "_" { None } else { Some(t[2].parse().unwrap()) }, symlink: t[3] == "1" }
}

fn leak(s: &str) -> &'static str {
    Box::leak(s.to_string().into_boxed_str())
}

/// the same FileSpec with the start-time part left UNDECIDED (the documented default: with rotation
/// the names carry no start time, whatever the order of the builder calls)
pub fn file_spec_undecided(dir: &Path, sp: &SpecP) -> FileSpec {
    FileSpec::default().directory(dir).basename(sp.basename.clone()).o_discriminant(sp.discr.clone()).o_suffix(sp.suffix.clone())
}

pub fn file_spec(dir: &Path, sp: &SpecP) -> FileSpec {
    FileSpec::default()
        .directory(dir)
        .basename(sp.basename.clone())
        .o_discriminant(sp.discr.clone())
        .o_suffix(sp.suffix.clone())
        .suppress_timestamp()
}

pub fn rotation(sp: &SpecP, cfg: &CfgP) -> Option<(Criterion, Naming, Cleanup)> {
    let mut out = None;
    if let Some(r) = &cfg.rot {
        let age = |c: char| match c { 'd' => Age::Day, 'h' => Age::Hour, 'm' => Age::Minute, _ => Age::Second };
        let crit = match (r.max_size, r.age) {
            (Some(n), None) => Criterion::Size(n),
            (None, Some(a)) => Criterion::Age(age(a)),
            (Some(n), Some(a)) => Criterion::AgeOrSize(age(a), n),
            (None, None) => Criterion::Size(u64::MAX),
        };
        let custom = sp.fmt != 0 || sp.cur.is_some();
        let naming = match r.naming.as_str() {
            "num" => Naming::Numbers,
            "numd" => Naming::NumbersDirect,
            "ts" => if custom { Naming::TimestampsCustomFormat { current_infix: Some(leak(sp.cur.as_deref().unwrap_or("rCURRENT"))), format: leak(FORMATS[sp.fmt]) } } else { Naming::Timestamps },
            _ => if custom { Naming::TimestampsCustomFormat { current_infix: None, format: leak(FORMATS[sp.fmt]) } } else { Naming::TimestampsDirect },
        };
        let cleanup = match r.cleanup {
            None => Cleanup::Never,
            Some((k, 0)) => Cleanup::KeepLogFiles(k),
            Some((0, m)) => Cleanup::KeepCompressedFiles(m),
            Some((k, m)) => Cleanup::KeepLogAndCompressedFiles(k, m),
        };
        out = Some((crit, naming, cleanup));
    }
    out
}

/// `use_windows_line_ending()` for the writers built in this case (op `CRLF`)
static CRLF: std::sync::atomic::AtomicBool = std::sync::atomic::AtomicBool::new(false);
fn crlf() -> bool { CRLF.load(std::sync::atomic::Ordering::SeqCst) }

/// what the harness sees of the cleanup thread's protocol (adversarial schedules, where the two
/// threads never run at the same time): R = a new rotated file appeared, K = a message without a
/// new file, T = the thread took a message (and lists the directory), X = one file operation of
/// the thread; `ops` = which file each X removed (`r<rank>`) or compressed (`c<rank>`), the rank
/// being the order in which the rotated files appeared
#[derive(Default)]
pub struct BgRec {
    events: String,
    seen: Vec<String>,
    unmatched: usize,
    last: std::collections::BTreeSet<String>,
    ops: Vec<String>,
    current: String,
    dir: PathBuf,
}
static BGREC: Mutex<Option<BgRec>> = Mutex::new(None);
pub static BGOBS_LINE: Mutex<Option<String>> = Mutex::new(None);
/// what was observed of a kill at an arbitrary instant (`KW …` is rewritten into `KOBS …`)
pub static KOBS_LINE: Mutex<Option<String>> = Mutex::new(None);

fn bg_stem(n: &str) -> String { n.strip_suffix(".gz").unwrap_or(n).to_string() }
fn bg_listing(r: &BgRec) -> std::collections::BTreeSet<String> {
    std::fs::read_dir(&r.dir).map(|rd| rd.flatten().filter(|e| e.path().symlink_metadata().map_or(false, |m| m.is_file()))
        .map(|e| e.file_name().to_string_lossy().to_string()).filter(|n| *n != r.current).collect()).unwrap_or_default()
}
fn bg_record(name: &str) {
    let mut g = BGREC.lock().unwrap_or_else(std::sync::PoisonError::into_inner);
    let Some(r) = g.as_mut() else { return };
    let on_cleaner = std::thread::current().name().is_some_and(|n| n.contains("cleanup"));
    match name {
        "rename.after" if !on_cleaner => {
            let now = bg_listing(r);
            let mut fresh: Vec<String> = now.iter().map(|n| bg_stem(n)).filter(|st| !r.seen.contains(st)).collect();
            fresh.sort();
            fresh.dedup();
            for st in fresh { r.seen.push(st); r.events.push('R'); r.unmatched += 1; }
            r.last = now;
        }
        "cleanup.thread.send" => { if r.unmatched > 0 { r.unmatched -= 1; } else { r.events.push('K'); } }
        "cleanup.thread.act" => { r.events.push('T'); r.last = bg_listing(r); }
        "compress.removed" | "cleanup.remove.after" => {
            let now = bg_listing(r);
            let gone: Vec<String> = r.last.difference(&now).cloned().collect();
            let rank = |n: &String| r.seen.iter().position(|s| *s == bg_stem(n)).map_or("?".to_string(), |p| p.to_string());
            let op = match gone.as_slice() {
                [n] => format!("{}{}", if name == "compress.removed" { 'c' } else { 'r' }, rank(n)),
                other => format!("?{}", other.len()),
            };
            r.ops.push(op);
            r.events.push('X');
            r.last = now;
        }
        _ => {}
    }
}

static BG_SENT: std::sync::atomic::AtomicUsize = std::sync::atomic::AtomicUsize::new(0);
static BG_WINDOW: std::sync::atomic::AtomicBool = std::sync::atomic::AtomicBool::new(false);
static BG_DONE: std::sync::atomic::AtomicUsize = std::sync::atomic::AtomicUsize::new(0);

pub fn builder(dir: &Path, sp: &SpecP, cfg: &CfgP, bg_cleanup: bool, mode: Option<WriteMode>) -> FileLogWriterBuilder {
    let mut b = FileLogWriter::builder(file_spec(dir, sp)).format(raw_format).cleanup_in_background_thread(bg_cleanup);
    if let Some((crit, naming, cleanup)) = rotation(sp, cfg) {
        b = b.rotate(crit, naming, cleanup);
    }
    if cfg.append {
        b = b.append();
    }
    b = b.write_mode(mode.unwrap_or(match cfg.cap { None => WriteMode::Direct, Some(c) => WriteMode::BufferDontFlushWith(c) }));
    if cfg.symlink {
        b = b.create_symlink(dir.join("current.link"));
    }
    if crlf() {
        b = b.use_windows_line_ending();
    }
    b
}

/// the same configuration through `Logger` (C04: flush/shutdown/drop of the LoggerHandle)
/// `VIA addwriter`: the file writer of the case is an ADDITIONAL writer of a logger that has no
/// primary output (`do_not_log`); records reach it through the target `{flw}`, and flush / shutdown /
/// drop reach it through the handle's treatment of additional writers
static VIA_ADD: std::sync::atomic::AtomicBool = std::sync::atomic::AtomicBool::new(false);
/// `VIA filewriter`: `log_to_file_and_writer` — the file writer next to a second writer (the
/// fan-out layer `MultiWriter` serves both)
static VIA_FW: std::sync::atomic::AtomicBool = std::sync::atomic::AtomicBool::new(false);
/// `VIA addwriter-failing`: next to the additional file writer `{flw}` the logger has a primary writer
/// and further additional writers whose `reopen_output()` / `rotate()` FAIL — the handle must still
/// reach every writer ("all of them will be attempted")
pub static BUILDER_ORDER: AtomicUsize = AtomicUsize::new(0);
static VIA_FAILING: std::sync::atomic::AtomicBool = std::sync::atomic::AtomicBool::new(false);
struct FailingWriter;
impl LogWriter for FailingWriter {
    fn write(&self, _now: &mut DeferredNow, _record: &Record) -> std::io::Result<()> { Ok(()) }
    fn flush(&self) -> std::io::Result<()> { Ok(()) }
    fn reopen_output(&self) -> Result<(), flexi_logger::FlexiLoggerError> { Err(flexi_logger::FlexiLoggerError::NoFileLogger) }
    fn rotate(&self) -> Result<(), flexi_logger::FlexiLoggerError> { Err(flexi_logger::FlexiLoggerError::NoFileLogger) }
}
/// the mode a `Logger` hands to its file writer (mirror of `Model/WMode.withoutFlushing`; the write
/// mode cannot be changed by `reset_flw`, so the new builder must name exactly this one)
pub fn without_flushing(m: WriteMode) -> WriteMode {
    match m {
        WriteMode::BufferAndFlush => WriteMode::BufferDontFlush,
        WriteMode::BufferAndFlushWith(c, _) => WriteMode::BufferDontFlushWith(c),
        WriteMode::Async => WriteMode::AsyncWith { pool_capa: 50, message_capa: 200, flush_interval: std::time::Duration::ZERO },
        WriteMode::AsyncWith { pool_capa, message_capa, .. } => WriteMode::AsyncWith { pool_capa, message_capa, flush_interval: std::time::Duration::ZERO },
        m => m,
    }
}
pub fn second_dir(dir: &Path) -> PathBuf { let mut d = dir.as_os_str().to_owned(); d.push(".second"); PathBuf::from(d) }
#[allow(dead_code)]
struct NullWriter;
impl LogWriter for NullWriter {
    fn write(&self, _now: &mut DeferredNow, _record: &Record) -> std::io::Result<()> { Ok(()) }
    fn flush(&self) -> std::io::Result<()> { Ok(()) }
}
fn lw_target() -> &'static str { if VIA_ADD.load(std::sync::atomic::Ordering::SeqCst) { "{flw}" } else { "t" } }

pub fn logger(dir: &Path, sp: &SpecP, cfg: &CfgP, mode: Option<WriteMode>, errchan: &Path) -> (Box<dyn log::Log>, flexi_logger::LoggerHandle) {
    if VIA_ADD.load(std::sync::atomic::Ordering::SeqCst) {
        let w = builder(dir, sp, cfg, false, mode).try_build().expect("try_build");
        let l = flexi_logger::Logger::with(flexi_logger::LogSpecification::trace());
        let l = if VIA_FAILING.load(std::sync::atomic::Ordering::SeqCst) {
            // (the additional writers live in a hash map: with several failing ones around it, the
            //  file writer is visited after a failing one whatever the order)
            let mut l = l.log_to_writer(Box::new(FailingWriter));
            for n in ["a", "b", "c", "d", "e", "f", "g", "h"] { l = l.add_writer(n, Box::new(FailingWriter)); }
            l
        } else { l.do_not_log() };
        return l
            .add_writer("flw", Box::new(w))
            .error_channel(flexi_logger::ErrorChannel::File(errchan.to_path_buf()))
            .panic_if_error_channel_is_broken(false)
            .build().expect("Logger::build");
    }
    // `NOTE builder-order N`: the same configuration through different call orders and through the
    // `o_*` forms of the builder methods (the result must not depend on it)
    let order = BUILDER_ORDER.load(std::sync::atomic::Ordering::SeqCst);
    let mut l = flexi_logger::Logger::with(flexi_logger::LogSpecification::trace());
    let rot = rotation(sp, cfg);
    let wm = mode.unwrap_or(match cfg.cap { None => WriteMode::Direct, Some(c) => WriteMode::BufferDontFlushWith(c) });
    // (with rotation and a non-standard builder order the FileSpec leaves the start-time part undecided)
    let fspec = || if rot.is_some() && order > 0 { file_spec_undecided(dir, sp) } else { file_spec(dir, sp) };
    // `VIA filewriter`: the second output is a BUFFERING file writer of its own (sibling directory): what
    // flush()/shutdown()/drop must also deliver
    let second = || -> Box<dyn LogWriter> {
        let d2 = second_dir(dir);
        let _ = std::fs::create_dir_all(&d2);
        Box::new(FileLogWriter::builder(FileSpec::default().directory(&d2).basename("second").suppress_timestamp()).format(raw_format).write_mode(WriteMode::BufferDontFlushWith(8192)).try_build().expect("second writer"))
    };
    let to_file = |l: flexi_logger::Logger| if VIA_FW.load(std::sync::atomic::Ordering::SeqCst) { l.log_to_file_and_writer(fspec(), second()) } else { l.log_to_file(fspec()) };
    match order {
        1 => {
            // rotation, append and write mode are chosen BEFORE the output
            if let Some((crit, naming, cleanup)) = rot { l = l.rotate(crit, naming, cleanup); }
            if cfg.append { l = l.append(); }
            l = l.write_mode(wm);
            l = to_file(l);
        }
        2 => {
            l = to_file(l);
            l = l.o_rotate(rot).o_append(cfg.append).write_mode(wm);
        }
        3 => {
            l = l.write_mode(wm).o_append(cfg.append).o_rotate(rot);
            l = to_file(l);
        }
        _ => {
            l = to_file(l);
            if let Some((crit, naming, cleanup)) = rot { l = l.rotate(crit, naming, cleanup); }
            if cfg.append { l = l.append(); }
            l = l.write_mode(wm);
        }
    }
    let mut l = l
        .format(raw_format)
        .cleanup_in_background_thread(false)
        .error_channel(flexi_logger::ErrorChannel::File(errchan.to_path_buf()))
        .panic_if_error_channel_is_broken(false);
    if cfg.symlink {
        l = l.create_symlink(dir.join("current.link"));
    }
    if crlf() {
        l = l.use_windows_line_ending();
    }
    l.build().expect("Logger::build")
}

#[derive(Default)]
struct FaultPlan {
    open: Option<usize>,
    rename: Option<usize>,
    write: Option<usize>,
    remove: Option<usize>,
    gz: Option<usize>,
    gzcopy: Option<usize>,
    gzfinish: Option<usize>,
}
fn parse_faults(s: &str) -> FaultPlan {
    let mut f = FaultPlan::default();
    if s == "-" {
        return f;
    }
    for part in s.split(';') {
        let (k, v) = part.split_once('=').unwrap();
        let v: usize = v.parse().unwrap();
        match k {
            "open" => f.open = Some(v),
            "rename" => f.rename = Some(v),
            "write" => f.write = Some(v),
            "remove" => f.remove = Some(v),
            "gz" => f.gz = Some(v),
            "gzcopy" => f.gzcopy = Some(v),
            "gzfinish" => f.gzfinish = Some(v),
            _ => panic!("fault kind {k}"),
        }
    }
    f
}

fn install_faults(plan: FaultPlan) {
    let c_open = AtomicUsize::new(0);
    let c_rename = AtomicUsize::new(0);
    let c_write = AtomicUsize::new(0);
    let c_remove = AtomicUsize::new(0);
    let c_gz = AtomicUsize::new(0);
    let c_gzcopy = AtomicUsize::new(0);
    let c_gzfinish = AtomicUsize::new(0);
    flexi_logger::verif_hooks::set_fault_handler(Some(Arc::new(move |kind, _path| {
        let (ctr, at) = match kind {
            "open" | "reopen" => (&c_open, plan.open),
            "rename" => (&c_rename, plan.rename),
            "write" => (&c_write, plan.write),
            "remove" => (&c_remove, plan.remove),
            "gz_create" => (&c_gz, plan.gz),
            "gz_copy" => (&c_gzcopy, plan.gzcopy),
            "gz_finish" => (&c_gzfinish, plan.gzfinish),
            _ => return None,
        };
        let n = ctr.fetch_add(1, Ordering::SeqCst);
        if at == Some(n) {
            Some(std::io::Error::new(std::io::ErrorKind::PermissionDenied, "injected fault"))
        } else {
            None
        }
    })));
}

pub struct ErrChan {
    pub path: PathBuf,
    pub seen: usize,      // cursor of the per-operation check
    pub seen_errs: usize, // cursor of the ERRS observation
}
impl ErrChan {
    fn all(&self) -> Vec<String> {
        let text = std::fs::read_to_string(&self.path).unwrap_or_default();
        let mut kinds = Vec::new();
        for l in text.lines() {
            if let Some(i) = l.find("[flexi_logger][ERRCODE::") {
                let rest = &l[i + "[flexi_logger][ERRCODE::".len()..];
                let code: String = rest.chars().take_while(|c| c.is_alphanumeric()).collect();
                kinds.push(code.to_lowercase());
            }
        }
        kinds
    }
    /// kinds of the events that appeared since the last call (symlink events are not modelled)
    pub fn new_events(&mut self) -> Vec<String> {
        let kinds = self.all();
        let new: Vec<String> = kinds[self.seen.min(kinds.len())..].to_vec();
        self.seen = kinds.len();
        new.into_iter().filter(|k| k != "symlink" && k != "palette").collect()
    }
    pub fn new_for_errs(&mut self) -> Vec<String> {
        let kinds = self.all();
        let new: Vec<String> = kinds[self.seen_errs.min(kinds.len())..].to_vec();
        self.seen_errs = kinds.len();
        new.into_iter().filter(|k| k != "symlink" && k != "palette").collect()
    }
    pub fn reset(&mut self) {
        let n = self.all().len();
        self.seen = n;
        self.seen_errs = n;
    }
}

static ERRCHAN: Mutex<Option<PathBuf>> = Mutex::new(None);

/// the error channel is process-global: one file per process, set through a dummy logger
pub fn ensure_error_channel(ctx: &Ctx) -> PathBuf {
    let mut g = ERRCHAN.lock().unwrap();
    if let Some(p) = &*g {
        return p.clone();
    }
    std::fs::create_dir_all(&ctx.work).unwrap();
    let p = ctx.work.join(format!("errchan-flw-{}.txt", std::process::id()));
    let _ = std::fs::remove_file(&p);
    let built = flexi_logger::Logger::with(flexi_logger::LogSpecification::off())
        .do_not_log()
        .error_channel(flexi_logger::ErrorChannel::File(p.clone()))
        .panic_if_error_channel_is_broken(false)
        .build();
    std::mem::forget(built); // never shut down; nothing is written through it
    *g = Some(p.clone());
    p
}

pub fn read_file(p: &Path) -> Vec<u8> {
    let raw = std::fs::read(p).unwrap_or_default();
    if p.extension().is_some_and(|e| e == "gz") {
        let mut out = Vec::new();
        match flate2::read::GzDecoder::new(&raw[..]).read_to_end(&mut out) {
            Ok(_) => out,
            Err(_) => {
                let mut v = b"<corrupt gz>".to_vec();
                v.extend(out);
                v
            }
        }
    } else {
        raw
    }
}

/// names (sorted bytewise) of the regular files in the directory, without the foreign ones
pub fn list_dir(dir: &Path, foreign: &[String]) -> Vec<String> {
    let mut v: Vec<String> = std::fs::read_dir(dir)
        .map(|rd| {
            rd.flatten()
                .filter(|e| e.file_type().map(|t| t.is_file()).unwrap_or(false))
                .map(|e| e.file_name().to_string_lossy().to_string())
                .filter(|n| !foreign.contains(n))
                .collect()
        })
        .unwrap_or_default();
    v.sort();
    v
}

pub struct Flw {
    pub dir: PathBuf,
    pub spec: SpecP,
    pub cfg: CfgP,
    pub w: Option<(ArcFileLogWriter, FileLogWriterHandle)>,
    pub mode: Option<WriteMode>,
    pub bg_cleanup: bool,
    pub foreign: Vec<String>,
    pub moved: usize,
    pub old_current_tokens: Vec<String>,
    pub moved_names: Vec<String>,
    pub foreign_content: std::collections::HashMap<String, Vec<u8>>,
    pub via_logger: bool,
    pub lg: Option<(Box<dyn log::Log>, Vec<flexi_logger::LoggerHandle>)>,
    pub errchan: PathBuf,
    pub truncating: bool,
}
impl Flw {
    pub fn ensure(&mut self) -> &ArcFileLogWriter {
        if self.w.is_none() {
            let b = builder(&self.dir, &self.spec, &self.cfg, self.bg_cleanup, self.mode);
            self.w = Some(b.try_build_with_handle().expect("try_build_with_handle"));
        }
        &self.w.as_ref().unwrap().0
    }
    pub fn current_token(&self) -> String {
        self.spec.cur.clone().unwrap_or_else(|| "rCURRENT".into())
    }
    /// path of the file a non-direct writer currently writes to
    pub fn current_path(&self) -> PathBuf {
        let fs = file_spec(&self.dir, &self.spec);
        if self.cfg.rot.is_some() {
            fs.as_pathbuf(Some(&self.current_token()))
        } else {
            fs.as_pathbuf(None)
        }
    }
    /// does the name belong to the current family (or is it a file moved away from it)?
    pub fn in_family(&self, name: &str) -> bool {
        if name.starts_with("moved-") {
            return self.moved_names.iter().any(|m| m == name);
        }
        let fixed = {
            let mut s = self.spec.basename.clone();
            if let Some(d) = &self.spec.discr {
                if !s.is_empty() { s.push('_'); }
                s.push_str(d);
            }
            s
        };
        let Some(rest) = name.strip_prefix(&fixed) else { return false };
        let rest = if fixed.is_empty() { rest } else if let Some(x) = rest.strip_prefix('_') { x } else { return rest.is_empty() || rest.starts_with('.') };
        rest.starts_with('r') || rest.starts_with(&self.current_token())
    }
    /// file names in the property's reading order: files moved away, rotated files by name,
    /// then the current file
    pub fn reading_order(&self) -> Vec<String> {
        let names: Vec<String> = list_dir(&self.dir, &self.foreign).into_iter().filter(|n| self.in_family(n)).collect();
        let cur = self.current_path().file_name().map(|n| n.to_string_lossy().to_string());
        let mut rot: Vec<String> = names.iter().filter(|n| n.starts_with("moved-")).cloned().collect();
        rot.sort();
        let mut rest: Vec<String> = names.iter().filter(|n| Some((*n).clone()) != cur && !n.starts_with("moved-")).cloned().collect();
        rest.sort();
        if self.spec.fmt == 3 {
            // day-first names: the reading order of the property is the TIME order
            let fixed_len = { let mut s = self.spec.basename.clone(); if let Some(d) = &self.spec.discr { if !s.is_empty() { s.push('_'); } s.push_str(d); } if s.is_empty() { 0 } else { s.len() + 1 } };
            let key = |n: &String| -> String {
                let inf = n.get(fixed_len..).unwrap_or("");
                let b = inf.as_bytes();
                if b.len() >= 11 && b[0] == b'r' && b[3] == b'-' && b[6] == b'-' && inf.is_char_boundary(11) {
                    format!("r{}-{}-{}{}", &inf[7..11], &inf[4..6], &inf[1..3], &inf[11..])
                } else { inf.to_string() }
            };
            rest.sort_by_key(key);
        }
        rot.extend(rest);
        if let Some(c) = cur {
            if names.contains(&c) {
                rot.push(c);
            }
        }
        rot
    }
}

fn with_clock<T>(now: u64, f: impl FnOnce() -> T) -> T {
    if now != 0 {
        flexi_logger::verif_hooks::set_virtual_now(Some(stamp_to_local(now)));
    }
    f()
}

/// what the harness remembers of a case, for the property oracles
#[derive(Default)]
pub struct Hist {
    /// accepted records since the last documented truncation: (bytes, stamp)
    pub recs: Vec<(Vec<u8>, u64)>,
    pub forced: bool,      // a forced rotation happened
    pub forced_at: Vec<usize>, // … after that many accepted records (op ROT)
    pub forced_times: Vec<(usize, u64)>, // … and at which clock reading
    pub second: Vec<u8>, // VIA filewriter: what the second (buffering) writer of the logger has been handed
    pub unrotatable: bool, // NOTE unrotatable: due rotations cannot succeed (index space exhausted, name too long): only the stream is judged
    pub bounds_always: bool, // no pre-existing files, no restarts: the cleanup limits hold after shutdown whether or not a rotation was observed (BGCLEAN 5)
    pub reopen_mark: Option<(usize, usize)>, // reopen_output() returned after that many records / rotations (cleared by the next external rename/remove, reset, restart)
    pub forced_unpositioned: bool, // … through RP/CROT (crash cases): position not recorded
    pub restarts: u64,
    pub faulty: bool,      // some op carried an injected fault
    pub lossy: bool,       // EXTRM / RESET / async-unflushed: stream oracle off
    pub rotations: u64,
    pub unflushed: bool,   // buffered bytes may not be on disk yet
    pub crashed: Option<Vec<u8>>,
    pub acked_at_crash: usize, // the process was killed during a write of these bytes
    pub reset_seen: bool,
    pub trunc_pending: bool, // a non-rotating, non-appending logger was started: truncation at its first write
    pub first_cfg: Option<CfgP>,
    pub cfg_changed: bool,
}
impl Hist {
    /// forced rotations whose position is known (all of them unless RP/CROT was used)
    fn rotations_forced_total(&self) -> u64 {
        if self.forced_unpositioned { u64::MAX } else { self.forced_at.len() as u64 }
    }
    fn stream(&self) -> Vec<u8> {
        self.recs.iter().flat_map(|r| r.0.iter().copied()).collect()
    }
}

fn age_trunc(a: char, k: u64) -> u64 {
    match a { 's' => k, 'm' => k / 100, 'h' => k / 10_000, _ => k / 1_000_000 }
}

/// stamp rendered in a timestamp-named file, if the name carries one in the standard format
fn stamp_in_name(name: &str) -> Option<u64> {
    let i = name.find("_r2").or_else(|| if name.starts_with("r2") { Some(0) } else { None })?;
    let s = &name[i..];
    let s = s.trim_start_matches('_');
    let digits: String = s.chars().skip(1).take(19).filter(|c| c.is_ascii_digit()).collect();
    if digits.len() == 14 && s.as_bytes().get(5) == Some(&b'-') { digits.parse().ok() } else { None }
}

/// C04 for the second output of `log_to_file_and_writer`: after flush()/shutdown() has returned, the
/// second (buffering) writer's file holds every record handed to the logger
fn check_second(ctx: &mut Ctx, case_id: &str, li: usize, dir: &Path, h: &Hist, has_logger: bool, what: &str) {
    if !has_logger || !VIA_FW.load(std::sync::atomic::Ordering::SeqCst) || h.second.is_empty() { return; }
    let got = std::fs::read(second_dir(dir).join("second.log")).unwrap_or_default();
    if got != h.second {
        ctx.report.fail(case_id, "second-writer-incomplete", &format!("line {li}: {what} has returned; the additional writer of log_to_file_and_writer holds {} of {} bytes", got.len(), h.second.len()));
    }
}

fn oracles(ctx: &mut Ctx, case_id: &str, li: usize, f: &Flw, h: &Hist, at_sync_point: bool) {
    // --- foreign files (C14): never modified, renamed, compressed or deleted
    for (n, c) in &f.foreign_content {
        match std::fs::read(f.dir.join(n)) {
            Ok(now) if &now == c => {}
            Ok(now) => ctx.report.fail(case_id, "foreign-file-modified", &format!("line {li}: foreign file {n:?} changed from {:?} to {:?}", String::from_utf8_lossy(c), String::from_utf8_lossy(&now))),
            Err(_) => ctx.report.fail(case_id, "foreign-file-removed", &format!("line {li}: foreign file {n:?} does not exist any more (directory: {:?})", list_dir(&f.dir, &[]))),
        }
    }
    // --- reopen_output (C18): the records logged after it has returned are in a file at the ORIGINAL path
    if let (Some((k, nfiles)), true) = (h.reopen_mark, at_sync_point) {
        let direct = f.cfg.rot.as_ref().map_or(false, |r| r.naming == "numd" || r.naming == "tsd");
        if !direct && !h.faulty && h.restarts == 0 && h.recs.len() > k && h.crashed.is_none() {
            let post: Vec<u8> = h.recs[k..].iter().flat_map(|r| r.0.clone()).collect();
            let p = f.current_path();
            let cur = std::fs::read(&p).unwrap_or_default();
            // (the mark holds the number of files right after the reopen: a rotation since then adds files
            //  and moves the records on — then the stream oracle and the model are the judges)
            let rotated_since = list_dir(&f.dir, &[]).len() != nfiles;
            if !rotated_since && (!p.exists() || !cur.ends_with(&post)) {
                ctx.report.fail(case_id, "reopen-not-at-original-path", &format!(
                    "line {li}: reopen_output() has returned and {} record(s) were logged afterwards, but the file at the original path {:?} {} (directory: {:?})",
                    h.recs.len() - k, p.file_name().unwrap_or_default(), if p.exists() { "does not end with them" } else { "does not exist" }, list_dir(&f.dir, &[])));
            }
        }
    }
    let mut order = f.reading_order();
    if h.faulty {
        // a compression whose final removal failed leaves the original next to its .gz:
        // the same bytes twice on disk is not a loss; read them once
        let all = order.clone();
        order.retain(|n| !(n.ends_with(".gz") && all.contains(&n[..n.len() - 3].to_string())
            && read_file(&f.dir.join(n)) == read_file(&f.dir.join(&n[..n.len() - 3]))));
    }
    let contents: Vec<Vec<u8>> = order.iter().map(|n| read_file(&f.dir.join(n))).collect();
    let all: Vec<u8> = contents.iter().flat_map(|c| c.iter().copied()).collect();
    let mut stream = h.stream();
    let cleanup = f.cfg.rot.as_ref().and_then(|r| r.cleanup);
    if let Some(inflight) = &h.crashed {
        // --- crash (C11): every acknowledged record is there; at most the in-flight one in addition
        let n_acked = h.acked_at_crash;
        let acked: Vec<u8> = h.recs[..n_acked].iter().flat_map(|r| r.0.iter().copied()).collect();
        let later: Vec<u8> = h.recs[n_acked..].iter().flat_map(|r| r.0.iter().copied()).collect();
        let mut with_inflight = acked.clone();
        with_inflight.extend(inflight);
        let a: Vec<u8> = acked.iter().chain(later.iter()).copied().collect();
        let b: Vec<u8> = with_inflight.iter().chain(later.iter()).copied().collect();
        if cleanup.is_none() && !h.lossy && !f.truncating {
            if all != a && all != b {
                ctx.report.fail(case_id, "crash-loses-acknowledged-record", &format!(
                    "line {li}: after the kill (and restart) the files {order:?} hold {:?}; acknowledged: {:?}, in flight: {:?}, logged after the restart: {:?}",
                    String::from_utf8_lossy(&all), String::from_utf8_lossy(&acked), String::from_utf8_lossy(inflight), String::from_utf8_lossy(&later)));
            }
        }
        return;
    }
    let _ = &mut stream;
    if h.lossy || (!f.moved_names.is_empty() && f.cfg.rot.is_some()) {
        return;
    }
    // --- stream (C01, C06, C15, C18, C04): nothing lost, duplicated or reordered
    let sig_sfx = if h.faulty { "-after-faults" } else if h.restarts > 0 { "-across-restarts" } else { "" };
    if cleanup.is_none() {
        if at_sync_point {
            if all != stream {
                ctx.report.fail(case_id, &format!("stream-mismatch{sig_sfx}"), &format!(
                    "line {li}: files read oldest->newest {:?} give {:?} but the accepted records are {:?}",
                    order, String::from_utf8_lossy(&all), String::from_utf8_lossy(&stream)));
            }
        } else if !stream.starts_with(&all) {
            ctx.report.fail(case_id, &format!("stream-not-prefix{sig_sfx}"), &format!(
                "line {li}: files {:?} hold {:?} which is not a prefix of the accepted records {:?}",
                order, String::from_utf8_lossy(&all), String::from_utf8_lossy(&stream)));
        }
    } else if at_sync_point && !h.faulty {
        // --- cleanup (C07): a contiguous tail survives, bounded numbers of files, current spared
        if !stream.ends_with(&all) {
            ctx.report.fail(case_id, &format!("cleanup-not-a-tail{sig_sfx}"), &format!(
                "line {li}: surviving files {:?} hold {:?} which is not a tail of the logged stream {:?}",
                order, String::from_utf8_lossy(&all), String::from_utf8_lossy(&stream)));
        }
        let (k, m) = cleanup.unwrap();
        let direct = f.cfg.rot.as_ref().map_or(false, |r| r.naming == "numd" || r.naming == "tsd");
        let cur = f.current_path().file_name().unwrap().to_string_lossy().to_string();
        let plain = order.iter().filter(|n| !n.ends_with(".gz") && (direct || **n != cur)).count();
        let gz = order.iter().filter(|n| n.ends_with(".gz")).count();
        let kk = if direct && k == 0 { 1 } else { k };
        let compressible = f.spec.suffix.is_some();
        let _ = compressible;
        if (h.rotations > 0 || (h.bounds_always && at_sync_point)) && !h.faulty && (plain > kk || gz > m) {
            ctx.report.fail(case_id, "cleanup-bounds", &format!(
                "line {li}: {plain} rotated plain files and {gz} compressed files exist ({order:?}) but the limits are {kk} and {m}"));
        }
    }
    if h.faulty || h.restarts > 0 || !at_sync_point || !f.moved_names.is_empty() || h.reset_seen || h.unrotatable {
        return;
    }
    let rot = match &f.cfg.rot { Some(r) => r, None => return };
    if cleanup.is_some() || all != stream || h.recs.iter().any(|r| r.0.is_empty()) {
        // (an empty chunk has no position of its own in a file: the partition oracles do not apply)
        return;
    }
    // map records to files
    let mut file_of: Vec<usize> = Vec::new();
    {
        let mut fi = 0usize;
        let mut used = 0usize;
        for (b, _) in &h.recs {
            while fi < contents.len() && used + b.len() > contents[fi].len() && used >= contents[fi].len() {
                fi += 1;
                used = 0;
            }
            if fi >= contents.len() || used + b.len() > contents[fi].len() {
                ctx.report.fail(case_id, "record-straddles-files", &format!("line {li}: a record is split over two files ({order:?}, sizes {:?})", contents.iter().map(Vec::len).collect::<Vec<_>>()));
                return;
            }
            file_of.push(fi);
            used += b.len();
        }
    }
    // --- size rule (C08): rotation exactly when the current file already exceeds N
    let age_inactive = rot.age.map_or(true, |a| h.recs.windows(2).all(|w| age_trunc(a, w[0].1) == age_trunc(a, w[1].1)));
    if let (Some(n), true) = (rot.max_size, age_inactive) {
        // forced rotations (op ROT; their positions are known) close the file whatever its size;
        // the file they start obeys the rule like any other
        if !h.forced || h.forced_at.len() as u64 == h.rotations_forced_total() {
            let mut cur = 0u64;
            let mut fi = 0usize;
            for (i, (b, _)) in h.recs.iter().enumerate() {
                let forced_here = h.forced_at.iter().filter(|p| **p == i && i > 0).count();
                if forced_here > 0 {
                    fi += forced_here;
                    cur = 0;
                }
                if cur > n {
                    fi += 1;
                    cur = 0;
                }
                if file_of[i] != fi {
                    ctx.report.fail(case_id, "size-rule", &format!(
                        "line {li}: limit {n}: record #{i} (len {}) is in file #{} ({:?}) but the rule 'rotate iff the file already holds more than {n} bytes' puts it into file #{fi}; sizes {:?}",
                        b.len(), file_of[i], order.get(file_of[i]), contents.iter().map(Vec::len).collect::<Vec<_>>()));
                    break;
                }
                cur += b.len() as u64;
            }
        }
    }
    // --- age rule (C09)
    if let (None, Some(a)) = (rot.max_size, rot.age) {
        for i in 1..h.recs.len() {
            let same_period = age_trunc(a, h.recs[i].1) == age_trunc(a, h.recs[i - 1].1);
            let same_file = file_of[i] == file_of[i - 1];
            if !h.forced && same_period != same_file {
                ctx.report.fail(case_id, "age-rule", &format!(
                    "line {li}: age '{a}': records #{} (at {}) and #{i} (at {}) are in the {} period but in {} file(s) ({:?})",
                    i - 1, h.recs[i - 1].1, h.recs[i].1, if same_period { "same" } else { "different" }, if same_file { "the same" } else { "different" }, order));
                break;
            }
            if h.forced && same_file && !same_period {
                ctx.report.fail(case_id, "age-rule", &format!("line {li}: age '{a}': one file holds records of two periods ({} and {})", h.recs[i - 1].1, h.recs[i].1));
                break;
            }
        }
        // with forced rotations (their positions and clock readings are known): a forced rotation
        // starts a file at ITS time; the criterion closes a file exactly when a record arrives in a
        // later period than the one in which the current file was started — so the number of
        // files is determined (a rotation too many leaves an empty file, one too few mixes periods)
        if h.forced && h.forced_times.len() == h.forced_at.len() && h.forced_at.len() as u64 == h.rotations_forced_total() {
            let mut files = 0usize;
            let mut started: Option<u64> = None;
            for i in 0..=h.recs.len() {
                for (_, t) in h.forced_times.iter().filter(|(p, _)| *p == i) {
                    if started.is_some() { files += 1; started = Some(*t); }
                }
                if i < h.recs.len() {
                    let t = h.recs[i].1;
                    match started {
                        None => { files = 1; started = Some(t); }
                        Some(s0) => if age_trunc(a, s0) != age_trunc(a, t) { files += 1; started = Some(t); }
                    }
                }
            }
            if files != contents.len() {
                ctx.report.fail(case_id, "age-rule", &format!(
                    "line {li}: age '{a}': records at {:?}, forced rotations (after #records, at) {:?}: the rule gives {files} files, found {} ({order:?}, sizes {:?})",
                    h.recs.iter().map(|r| r.1).collect::<Vec<_>>(), h.forced_times, contents.len(), contents.iter().map(Vec::len).collect::<Vec<_>>()));
            }
        }
        // timestamp-named files carry the time at which their content was started
        if !h.forced && f.spec.fmt == 0 && (rot.naming == "ts" || rot.naming == "tsd") {
            for (fi, name) in order.iter().enumerate() {
                if let (Some(st), Some(first)) = (stamp_in_name(name), file_of.iter().position(|x| *x == fi)) {
                    if st != h.recs[first].1 {
                        ctx.report.fail(case_id, "ts-name-vs-content-start", &format!(
                            "line {li}: file {name} is named after {st} but its first record was written at {}", h.recs[first].1));
                        break;
                    }
                }
            }
        }
    }
}

pub fn execute(ctx: &mut Ctx, lines: &[String]) -> Vec<String> {
    let robust = tokens(&lines[0])[1] == "robust";
    let mut out = execute_inner(ctx, lines);
    if robust {
        // robustness cases (C10): only "did it panic / hang / stop logging" is observed
        for (a, l) in out.iter_mut().zip(lines.iter()) {
            if !(l.starts_with("CASE") || l.starts_with("END")) && (a == "err" || a.starts_with("ok")) { *a = "ok".into(); }
        }
    }
    out
}

/// environment of a child process that executes the first life of a crash case
pub struct CrashChild {
    pub dir: PathBuf,
    pub acks: PathBuf,
    pub side: PathBuf,
}
pub static CRASH_CHILD: Mutex<Option<CrashChild>> = Mutex::new(None);

fn dump_creation_table(dir: &Path, side: &Path) {
    let mut s = String::new();
    for n in list_dir(dir, &[]) {
        if let Some(t) = flexi_logger::verif_hooks::creation_time(&dir.join(&n)) {
            s.push_str(&format!("{}\t{}\n", n, t.format("%Y%m%d%H%M%S")));
        }
    }
    let _ = std::fs::write(side, s);
}

/// identity of a file that survives renaming and cannot be confused with a later file that
/// reuses the inode number: (inode, real birth time in ns) — as in the hooks' own table
fn file_identity(md: &std::fs::Metadata) -> String {
    use std::os::unix::fs::MetadataExt;
    let birth = md.created().ok().and_then(|t| t.duration_since(std::time::UNIX_EPOCH).ok()).map_or(0, |d| d.as_nanos());
    format!("{}:{}", md.ino(), birth)
}

/// creation times by file identity, written atomically (the process may be killed at any instant)
fn dump_creation_table_ino(dir: &Path, side: &Path) {
    let mut s = String::new();
    for n in list_dir(dir, &[]) {
        let p = dir.join(&n);
        if let (Some(t), Ok(md)) = (flexi_logger::verif_hooks::creation_time(&p), std::fs::metadata(&p)) {
            s.push_str(&format!("{}\t{}\n", file_identity(&md), t.format("%Y%m%d%H%M%S")));
        }
    }
    let tmp = side.with_extension("tmp");
    if std::fs::write(&tmp, s).is_ok() { let _ = std::fs::rename(&tmp, side); }
}

/// the directory as `SNAP` prints it; a .gz that a killed process had not finished holds nothing readable
fn snapshot_after_kill(dir: &Path) -> String {
    let names = list_dir(dir, &[]);
    if names.is_empty() { return "-".into(); }
    names.iter().map(|n| {
        let mut c = read_file(&dir.join(n));
        if c.starts_with(b"<corrupt gz>") { c.clear(); }
        format!("{}:{}", hexs(n), hex(&c))
    }).collect::<Vec<_>>().join(" ")
}

fn execute_inner(ctx: &mut Ctx, lines: &[String]) -> Vec<String> {
    let case_id = tokens(&lines[0])[2..].join(" ");
    // --- C11: the part of the case up to the kill runs in a child process
    let crash_at = lines.iter().position(|l| l.starts_with("CW ") || l.starts_with("CROT ") || l.starts_with("KW "));
    let in_child = CRASH_CHILD.lock().unwrap().is_some();
    let mut pre_answers: Vec<String> = Vec::new();
    let mut crash_info: Option<(Vec<u8>, bool, Vec<Vec<u8>>)> = None; // (in-flight bytes, killed, acked records)
    let mut fixed_dir: Option<PathBuf> = CRASH_CHILD.lock().unwrap().as_ref().map(|c| c.dir.clone());
    if let (Some(ci), false) = (crash_at, in_child) {
        let dir = ctx.work.join(format!("case-{}-{}", std::process::id(), ctx.case_no));
        let _ = std::fs::remove_dir_all(&dir);
        std::fs::create_dir_all(&dir).unwrap();
        let cf = ctx.work.join(format!("crashcase-{}.txt", std::process::id()));
        let acks = ctx.work.join(format!("crashacks-{}.txt", std::process::id()));
        let side = ctx.work.join(format!("crashside-{}.txt", std::process::id()));
        let _ = std::fs::remove_file(&acks);
        let _ = std::fs::remove_file(&side);
        let mut text = lines[..=ci].join("\n");
        text.push_str("\nEND\n");
        std::fs::write(&cf, text).unwrap();
        let exe = std::env::current_exe().unwrap();
        let is_kw = lines[ci].starts_with("KW ");
        let go = acks.with_extension("go");
        let _ = std::fs::remove_file(&go);
        let o = if is_kw {
            // SIGKILL from outside at an arbitrary instant: `delay` microseconds after the child
            // announced the start of its burst of writes
            let delay: u64 = tokens(&lines[ci])[3].parse().unwrap();
            let mut ch = std::process::Command::new(exe).arg("child").arg("crash").arg(&cf).arg(&dir).arg(&acks).arg(&side).arg(&ctx.work)
                .stdout(std::process::Stdio::null()).stderr(std::process::Stdio::null()).spawn().expect("child");
            let t0 = std::time::Instant::now();
            let mut exited = None;
            while !go.exists() && t0.elapsed().as_secs() < 30 {
                if let Ok(Some(st)) = ch.try_wait() { exited = Some(st); break; }
                std::hint::spin_loop();
            }
            let status = match exited {
                Some(st) => st,
                None => {
                    let t1 = std::time::Instant::now();
                    while (t1.elapsed().as_micros() as u64) < delay { std::hint::spin_loop(); }
                    let _ = ch.kill();
                    ch.wait().expect("wait")
                }
            };
            std::process::Output { status, stdout: vec![], stderr: vec![] }
        } else {
            std::process::Command::new(exe).arg("child").arg("crash").arg(&cf).arg(&dir).arg(&acks).arg(&side).arg(&ctx.work).output().expect("child")
        };
        let killed = !o.status.success();
        let ack_text = std::fs::read_to_string(&acks).unwrap_or_default();
        let burst_acked = ack_text.lines().filter(|l| l.starts_with('K')).count();
        let acked_idx: Vec<usize> = std::fs::read_to_string(&acks).unwrap_or_default().lines().filter_map(|l| l.parse().ok()).collect();
        let mut acked: Vec<Vec<u8>> = Vec::new();
        for (i, l) in lines[..=ci].iter().enumerate() {
            let t = tokens(l);
            let a = match t[0] {
                "CASE" => header_answer(l),
                "W" | "ROT" | "WP" | "RP" => { if acked_idx.contains(&i) { if t[0] == "W" { acked.push(unhex(t[1]).unwrap()); } "ok".to_string() } else { ctx.report.fail(&case_id, "unacked-before-kill", &format!("line {i}: operation before the kill did not return in the child: {}", String::from_utf8_lossy(&o.stderr))); "unacked".to_string() } }
                "CW" | "CROT" => if killed { "killed".to_string() } else { "nopoint".to_string() },
                "KW" => "match".to_string(),
                _ => "ok".to_string(),
            };
            pre_answers.push(a);
        }
        let t = tokens(&lines[ci]);
        flexi_logger::verif_hooks::clear_creation_table();
        flexi_logger::verif_hooks::set_virtual_now(Some(stamp_to_local(20200101000000)));
        if is_kw {
            let recs: Vec<Vec<u8>> = t[1].split(',').map(|x| unhex(x).unwrap()).collect();
            ctx.report.count(if killed { "kill.any-instant.killed" } else { "kill.any-instant.burst-finished-first" });
            ctx.report.add("kill.any-instant.records-acked", burst_acked as u64);
            for r in &recs[..burst_acked.min(recs.len())] { acked.push(r.clone()); }
            let inflight = recs.get(burst_acked).cloned().unwrap_or_default();
            crash_info = Some((inflight, killed, acked));
            // creation times by file identity as of the last completed open; a file that is not in
            // the table was created by the operation in flight, at the (virtual) time of the burst.
            // (The identity includes the real birth time: a file removed by a cleanup frees its inode
            // number, and the very next file may get it.)
            let mut by_ino: std::collections::HashMap<String, u64> = std::collections::HashMap::new();
            for l in std::fs::read_to_string(&side).unwrap_or_default().lines() {
                if let Some((i, tt)) = l.split_once('\t') { by_ino.insert(i.to_string(), tt.parse::<u64>().unwrap()); }
            }
            let now: u64 = t[2].parse().unwrap();
            for n in list_dir(&dir, &[]) {
                let p = dir.join(&n);
                if let Ok(md) = std::fs::metadata(&p) {
                    let tt = by_ino.get(&file_identity(&md)).copied().unwrap_or(now);
                    flexi_logger::verif_hooks::set_creation(&p, stamp_to_local(tt));
                }
            }
            *KOBS_LINE.lock().unwrap() = Some(format!("KOBS {} {} {} {}", t[1], t[2], burst_acked, snapshot_after_kill(&dir)));
        } else {
        ctx.report.count(if killed { "crash.killed" } else { "crash.nopoint" });
        ctx.report.count(&format!("crash.at.{}", if t[0] == "CW" { t[3] } else { t[2] }));
        let inflight = if t[0] == "CW" { unhex(t[1]).unwrap() } else { vec![] };
        if !killed && t[0] == "CW" { acked.push(inflight.clone()); }
        crash_info = Some((inflight, killed, acked));
        // the creation times the dead process had recorded
        for l in std::fs::read_to_string(&side).unwrap_or_default().lines() {
            if let Some((n, t)) = l.split_once('\t') {
                flexi_logger::verif_hooks::set_creation(&dir.join(n), stamp_to_local(t.parse().unwrap()));
            }
        }
        }
        fixed_dir = Some(dir);
        let _ = std::fs::remove_file(&cf);
    }
    let skip = if crash_info.is_some() { crash_at.unwrap() + 1 } else { 0 };
    let err_path = ensure_error_channel(ctx);
    let mut ech = ErrChan { path: err_path, seen: 0, seen_errs: 0 };
    ech.reset();
    let dir = fixed_dir.clone().unwrap_or_else(|| ctx.work.join(format!("case-{}-{}", std::process::id(), ctx.case_no)));
    if fixed_dir.is_none() {
        let _ = std::fs::remove_dir_all(&dir);
        let _ = std::fs::remove_dir_all(second_dir(&dir));
        std::fs::create_dir_all(&dir).unwrap();
        flexi_logger::verif_hooks::clear_creation_table();
        flexi_logger::verif_hooks::set_virtual_now(Some(stamp_to_local(20200101000000)));
    }
    flexi_logger::verif_hooks::set_fault_handler(None);
    let mut f = Flw {
        dir: dir.clone(),
        spec: SpecP { basename: "app".into(), discr: None, suffix: Some("log".into()), cur: None, fmt: 0 },
        cfg: CfgP { rot: None, append: false, cap: None, symlink: false },
        w: None,
        mode: None,
        bg_cleanup: false,
        foreign: vec![],
        moved: 0,
        old_current_tokens: vec![],
        moved_names: vec![],
        foreign_content: Default::default(),
        via_logger: false,
        lg: None,
        errchan: ech.path.clone(),
        truncating: false,
    };
    let mut h = Hist::default();
    CRLF.store(false, std::sync::atomic::Ordering::SeqCst);
    VIA_ADD.store(false, std::sync::atomic::Ordering::SeqCst);
    VIA_FW.store(false, std::sync::atomic::Ordering::SeqCst);
    VIA_FAILING.store(false, std::sync::atomic::Ordering::SeqCst);
    BUILDER_ORDER.store(0, Ordering::SeqCst);
    let mut bg_lockstep = false;
    let mut bg_adversarial = false;
    let mut nocheck_foreign = false;
    let mut out = Vec::with_capacity(lines.len());
    out.extend(pre_answers.iter().cloned());
    if let Some((inflight, _killed, acked)) = &crash_info {
        // replay the configuration lines of the dead process for the harness' own bookkeeping
        for l in &lines[..skip] {
            let t = tokens(l);
            match t.as_slice() {
                ["SPEC", rest @ ..] if rest.len() == 5 => f.spec = parse_spec(rest),
                ["CFG", rest @ ..] if rest.len() == 5 => f.cfg = parse_cfg(rest),
                ["RESTART", rest @ ..] if rest.len() == 5 => f.cfg = parse_cfg(rest),
                _ => {}
            }
        }
        for b in acked { h.recs.push((b.clone(), 0)); }
        h.crashed = Some(inflight.clone());
        h.acked_at_crash = h.recs.len();
        h.restarts += 1;
    }
    for (li, line) in lines.iter().enumerate() {
        if li < skip { continue; }
        let t = tokens(line);
        let is_async = matches!(f.mode, Some(WriteMode::AsyncWith { .. }) | Some(WriteMode::Async));
        let buffered = f.mode.map_or(f.cfg.cap.is_some(), |m| !matches!(m, WriteMode::Direct | WriteMode::SupportCapture));
        let ans: String = match t.as_slice() {
            ["CASE", ..] => header_answer(line),
            ["END"] => "END".into(),
            // the time zone of the process (set at start from FVH_TZ); the virtual clock is given in
            // LOCAL time, so a correct logger behaves the same in every zone
            ["NOTE", "tz", z] => { if std::env::var("TZ").as_deref() == Ok(*z) { "ok".into() } else { "bad-op zone of the process differs".into() } }
            // the records of this case end with CR LF (`use_windows_line_ending`)
            ["NOTE", "crlf"] => { CRLF.store(true, std::sync::atomic::Ordering::SeqCst); "ok".into() }
            ["NOTE", "builder-order", n] => { BUILDER_ORDER.store(n.parse().unwrap(), Ordering::SeqCst); "ok".into() }
            ["NOTE", "unrotatable"] => { h.unrotatable = true; "ok".into() }
            ["NOTE", "nocheck-foreign"] => { f.foreign_content.clear(); nocheck_foreign = true; "ok".into() }
            ["NOTE", ..] => "ok".into(),
            ["SPEC", rest @ ..] if rest.len() == 5 => {
                f.spec = parse_spec(rest);
                "ok".into()
            }
            ["CFG", rest @ ..] if rest.len() == 5 => {
                f.cfg = parse_cfg(rest);
                f.w = None;
                if let Some(r) = BGREC.lock().unwrap_or_else(std::sync::PoisonError::into_inner).as_mut() {
                    r.current = f.current_path().file_name().map(|n| n.to_string_lossy().to_string()).unwrap_or_default();
                }
                "ok".into()
            }
            // logging continues: one more record is accepted and lands in a file (C10)
            // the whole log directory vanishes (an administrator's `rm -rf`, an unmounted volume) and
            // comes back: every file-system operation in between fails, incl. the directory listing
            ["RMDIR"] => {
                ctx.report.count("op.RMDIR");
                let _ = std::fs::remove_dir_all(&dir);
                h.lossy = true;
                "ok".into()
            }
            ["MKDIR"] => {
                ctx.report.count("op.MKDIR");
                let _ = std::fs::create_dir_all(&dir);
                "ok".into()
            }
            ["ALIVE", now] => {
                let now: u64 = now.parse().unwrap();
                let w = f.ensure().clone();
                let before: usize = list_dir(&dir, &[]).iter().map(|n| std::fs::metadata(dir.join(n)).map(|m| m.len() as usize).unwrap_or(0)).sum();
                let r = std::panic::catch_unwind(std::panic::AssertUnwindSafe(|| with_clock(now, || {
                    let r = LogWriter::write(&*w, &mut DeferredNow::new(), &Record::builder().level(log::Level::Info).args(format_args!("still alive")).build());
                    let _ = LogWriter::flush(&*w);
                    r
                })));
                let _ = before;
                let found = list_dir(&dir, &[]).iter().any(|n| { let c = read_file(&dir.join(n)); let raw = std::fs::read(dir.join(n)).unwrap_or_default(); c.windows(11).any(|w| w == b"still alive") || raw.windows(11).any(|w| w == b"still alive") });
                let _ = ech.new_events();
                // C10 is about the call returning; where the record ends up is the business of C01/C07
                let _ = found;
                match r {
                    Ok(Ok(())) => "ok".into(),
                    Ok(_) => { ctx.report.fail(&case_id, "logging-stopped", &format!("line {li}: a record logged after the history did not reach any file")); "lost".into() }
                    Err(_) => { ctx.report.fail(&case_id, "panic", &format!("line {li}: the log call panicked (directory: {:?})", list_dir(&dir, &[]))); "panic".into() }
                }
            }
            ["MODE", m] => {
                let p: Vec<&str> = m.split(':').collect();
                let ms = |x: &str| std::time::Duration::from_millis(x.parse().unwrap());
                ctx.report.count(&format!("mode.{}{}", p[0], if (p[0] == "bufflush" && p.len() == 3) || (p[0] == "async" && p.len() == 4) { "+ticking-flusher" } else { "" }));
                // the line names a PUBLIC variant of WriteMode; the model derives the effective mode
                f.mode = Some(match (p[0], p.len()) {
                    ("direct", 1) => WriteMode::Direct,
                    ("capture", 1) => WriteMode::SupportCapture,
                    ("bufdef", 1) => WriteMode::BufferDontFlush,
                    ("buf", 2) => WriteMode::BufferDontFlushWith(p[1].parse().unwrap()),
                    ("bufflushdef", 1) => WriteMode::BufferAndFlush,
                    ("bufflush", 2) => WriteMode::BufferAndFlushWith(p[1].parse().unwrap(), std::time::Duration::from_secs(3600)),
                    // a flusher thread that really ticks (every few milliseconds)
                    ("bufflush", 3) => WriteMode::BufferAndFlushWith(p[1].parse().unwrap(), ms(p[2])),
                    ("asyncdef", 1) => WriteMode::Async,
                    ("async", 3) => WriteMode::AsyncWith { pool_capa: p[1].parse().unwrap(), message_capa: p[2].parse().unwrap(), flush_interval: std::time::Duration::from_secs(0) },
                    ("async", 4) => WriteMode::AsyncWith { pool_capa: p[1].parse().unwrap(), message_capa: p[2].parse().unwrap(), flush_interval: ms(p[3]) },
                    _ => panic!("mode"),
                });
                f.w = None;
                "ok".into()
            }
            ["VIA", v] => {
                f.via_logger = *v == "logger" || *v == "addwriter" || *v == "filewriter" || *v == "addwriter-failing";
                VIA_ADD.store(*v == "addwriter" || *v == "addwriter-failing", std::sync::atomic::Ordering::SeqCst);
                VIA_FAILING.store(*v == "addwriter-failing", std::sync::atomic::Ordering::SeqCst);
                VIA_FW.store(*v == "filewriter", std::sync::atomic::Ordering::SeqCst);
                "ok".into()
            }
            ["LW", b, now] => {
                // a record through the log facade's Log::log of a real Logger
                let bytes = unhex(b).unwrap();
                let now: u64 = now.parse().unwrap();
                ctx.report.count("op.LW");
                if f.lg.is_none() {
                    let (b, h) = logger(&dir, &f.spec, &f.cfg, f.mode, &f.errchan);
                    f.lg = Some((b, vec![h]));
                }
                let payload = String::from_utf8(bytes[..bytes.len() - if crlf() { 2 } else { 1 }].to_vec()).unwrap();
                with_clock(now, || f.lg.as_ref().unwrap().0.log(&Record::builder().level(log::Level::Info).target(lw_target()).args(format_args!("{}", payload)).build()));
                let ev = ech.new_events();
                // no fault is injected in these histories: every record whose log call returned counts
                h.recs.push((bytes.clone(), now));
                if VIA_FW.load(std::sync::atomic::Ordering::SeqCst) { h.second.extend_from_slice(&bytes); }
                if buffered { h.unflushed = true; }
                if ev.is_empty() || is_async { "ok".into() } else { "err".into() }
            }
            // LoggerHandle::reopen_output / trigger_rotation (through the primary writer's fan-out)
            ["LREOPEN", now] | ["LROT", now] => {
                let now: u64 = now.parse().unwrap();
                ctx.report.count(&format!("op.{}", t[0]));
                match &f.lg {
                    None => "ok".into(),
                    Some((_, hs)) => {
                        let r = with_clock(now, || if t[0] == "LREOPEN" { hs[0].reopen_output() } else { hs[0].trigger_rotation() });
                        if t[0] == "LREOPEN" { h.unflushed = false; h.reopen_mark = Some((h.recs.len(), list_dir(&dir, &[]).len())); }
                        if t[0] == "LROT" && (r.is_ok() || VIA_FAILING.load(std::sync::atomic::Ordering::SeqCst)) && f.cfg.rot.is_some() { h.rotations += 1; h.forced = true; h.forced_at.push(h.recs.len()); h.forced_times.push((h.recs.len(), now)); }
                        // with failing writers around, the call reports THEIR failure — and must have reached the file writer all the same
                        if VIA_FAILING.load(std::sync::atomic::Ordering::SeqCst) && r.is_ok() {
                            ctx.report.fail(&case_id, "failure-of-a-writer-not-reported", &format!("line {li}: {} returned Ok although the primary writer and eight additional writers failed", t[0]));
                        }
                        if r.is_ok() { "ok".into() } else { "err".into() }
                    }
                }
            }
            ["LFLUSH"] => {
                ctx.report.count("op.LFLUSH");
                // alternately `LoggerHandle::flush` and the log facade's `Log::flush` of the boxed logger
                if let Some((lg, hs)) = &f.lg { if li % 2 == 0 { hs[0].flush(); } else { ctx.report.count("op.LFLUSH.log-facade"); lg.flush(); } }
                if !is_async { h.unflushed = false; }
                check_second(ctx, &case_id, li, &dir, &h, f.lg.is_some(), "flush()");
                "ok".into()
            }
            ["LSHUT"] => {
                ctx.report.count("op.LSHUT");
                if let Some((_, hs)) = &f.lg { hs[0].shutdown(); }
                h.unflushed = false;
                check_second(ctx, &case_id, li, &dir, &h, f.lg.is_some(), "shutdown()");
                "ok".into()
            }
            // two shutdown() calls that overlap in time (two threads on the same handle); the writer
            // thread is slowed down so that a backlog exists while they run. Each caller looks at the
            // files the moment ITS call has returned.
            ["LSHUT2"] => {
                ctx.report.count("op.LSHUT2");
                if let Some((_, hs)) = &f.lg {
                    let expected = h.stream().len() as u64;
                    flexi_logger::verif_hooks::set_point_handler(Some(Arc::new(|name| {
                        if name == "write.before" && std::thread::current().name().is_some_and(|n| n.contains("async")) {
                            std::thread::sleep(std::time::Duration::from_micros(400));
                        }
                    })));
                    let sizes: Vec<u64> = std::thread::scope(|sc| {
                        let js: Vec<_> = (0..2).map(|_| {
                            let hd = hs[0].clone();
                            let d = dir.clone();
                            sc.spawn(move || {
                                hd.shutdown();
                                std::fs::read_dir(&d).map(|rd| rd.flatten().filter_map(|e| e.metadata().ok()).filter(|m| m.is_file()).map(|m| m.len()).sum::<u64>()).unwrap_or(0)
                            })
                        }).collect();
                        js.into_iter().map(|j| j.join().unwrap_or(0)).collect()
                    });
                    flexi_logger::verif_hooks::set_point_handler(None);
                    if !h.lossy && !h.faulty && f.foreign.is_empty() {
                        for (i, sz) in sizes.iter().enumerate() {
                            if *sz < expected {
                                ctx.report.fail(&case_id, "shutdown-returned-early", &format!("line {li}: shutdown() has returned to caller {i} of two overlapping callers, but only {sz} of {expected} accepted bytes were in the log files at that moment"));
                            }
                        }
                    }
                }
                h.unflushed = false;
                "ok".into()
            }
            // flush() while other threads are logging: whatever a thread had logged before it called
            // flush() is in the files when that call returns (synchronous modes). Markers are logged
            // and flushed by this thread, round after round, while four other threads keep logging.
            ["LFLUSHC"] => {
                ctx.report.count("op.LFLUSHC");
                if f.lg.is_none() {
                    let (b, hd) = logger(&dir, &f.spec, &f.cfg, f.mode, &f.errchan);
                    f.lg = Some((b, vec![hd]));
                }
                if let (Some((lg, hs)), false) = (&f.lg, is_async) {
                    let stop = std::sync::atomic::AtomicBool::new(false);
                    // the other threads log under a read lock; this thread takes the write lock to look at
                    // the files: nobody is inside a log call then, and nothing moves
                    let gate = std::sync::RwLock::new(());
                    let lgr: &dyn log::Log = &**lg;
                    let missing: Option<String> = std::thread::scope(|sc| {
                        for t in 0..4 {
                            let stop = &stop;
                            let gate = &gate;
                            sc.spawn(move || {
                                // (bounded volume: the directory stays small whatever the rotation limit is)
                                let mut i = 0u64;
                                while !stop.load(std::sync::atomic::Ordering::Relaxed) && i < 1500 {
                                    {
                                        let _g = gate.read().unwrap();
                                        lgr.log(&Record::builder().level(log::Level::Info).target(lw_target()).args(format_args!("noise-{t}-{i}")).build());
                                    }
                                    i += 1;
                                    if i % 4 == 0 { std::thread::yield_now(); }
                                }
                            });
                        }
                        let mut missing = None;
                        for round in 0..60 {
                            let m = format!("flushc-marker-{li}-{round}");
                            lgr.log(&Record::builder().level(log::Level::Info).target(lw_target()).args(format_args!("{}", m)).build());
                            hs[0].flush();
                            let _w = gate.write().unwrap();
                            let mut all: Vec<u8> = Vec::new();
                            if let Ok(rd) = std::fs::read_dir(&dir) {
                                for p in rd.flatten().map(|e| e.path()).filter(|p| p.is_file()) {
                                    if let Ok(c) = std::fs::read(&p) { all.extend(&c); }
                                }
                            }
                            if !all.windows(m.len()).any(|w| w == m.as_bytes()) { missing = Some(m); break; }
                        }
                        stop.store(true, std::sync::atomic::Ordering::Relaxed);
                        missing
                    });
                    if let Some(m) = missing {
                        ctx.report.fail(&case_id, "flush-returned-early", &format!("line {li}: flush() has returned, but the record {m:?} that this thread had logged before is not in the files (other threads were logging at the same time)"));
                    }
                    h.lossy = true;
                }
                h.unflushed = false;
                "ok".into()
            }
            ["LCLONE"] => {
                ctx.report.count("op.LCLONE");
                if f.lg.is_none() {
                    let (b, hd) = logger(&dir, &f.spec, &f.cfg, f.mode, &f.errchan);
                    f.lg = Some((b, vec![hd]));
                }
                if let Some((_, hs)) = f.lg.as_mut() { let c = hs[0].clone(); hs.push(c); }
                "ok".into()
            }
            ["LDROPCLONE"] => {
                ctx.report.count("op.LDROPCLONE");
                if let Some((_, hs)) = f.lg.as_mut() { if hs.len() > 1 { drop(hs.pop()); if !is_async { h.unflushed = false; } } }
                "ok".into()
            }
            ["LDROPALL"] => {
                ctx.report.count("op.LDROPALL");
                if let Some((b, hs)) = f.lg.take() { drop(hs); drop(b); }
                h.unflushed = false;
                "ok".into()
            }
            // 1: cleanup thread in lock-step (after every operation the harness waits until the
            //    thread has worked off what was handed to it: the schedule of the synchronous model)
            // 2: cleanup thread free-running (only schedule-independent observations follow)
            // 3/4: adversarial schedule: the cleanup thread is held back and works off what was handed
            //    to it exactly inside the next rotation of the main thread — after the file got its
            //    final name (3: before the new file is opened; 4: after it was opened, before the
            //    writer is replaced)
            // the cleanup thread's protocol as observed (rewritten into `BGOBS k m <events>` for the
            // `Bg` model): the file operations it performed, in order, and the rotated files left
            ["BGTRACE"] => {
                let mut g = BGREC.lock().unwrap_or_else(std::sync::PoisonError::into_inner);
                let rc = f.cfg.rot.clone();
                let usable = bg_adversarial && h.restarts == 0 && !h.reset_seen && f.spec.suffix.is_some()
                    && rc.as_ref().map_or(false, |r| (r.naming == "num" || r.naming == "ts") && r.cleanup.is_some());
                match (g.as_mut(), usable) {
                    (Some(r), true) => {
                        let (k, m) = rc.unwrap().cleanup.unwrap();
                        let now = bg_listing(r);
                        let fin: Vec<String> = r.seen.iter().enumerate().filter_map(|(i, st)| {
                            if now.contains(st) { Some(format!("{i}p")) } else if now.contains(&format!("{st}.gz")) { Some(format!("{i}g")) } else { None }
                        }).collect();
                        *BGOBS_LINE.lock().unwrap() = Some(format!("BGOBS {k} {m} {}", if r.events.is_empty() { "-".to_string() } else { r.events.clone() }));
                        ctx.report.count("bg.trace");
                        ctx.report.add("bg.thread-ops", r.ops.len() as u64);
                        format!("{}|{}", if r.ops.is_empty() { "-".to_string() } else { r.ops.join(",") }, if fin.is_empty() { "-".to_string() } else { fin.join(" ") })
                    }
                    _ => { *BGOBS_LINE.lock().unwrap() = Some("NOTE bgtrace-not-applicable".into()); "ok".into() }
                }
            }
            ["BGCLEAN", b] if *b == "3" || *b == "4" => {
                f.bg_cleanup = true;
                BG_SENT.store(0, std::sync::atomic::Ordering::SeqCst);
                BG_DONE.store(0, std::sync::atomic::Ordering::SeqCst);
                BG_WINDOW.store(false, std::sync::atomic::Ordering::SeqCst);
                bg_adversarial = true;
                *BGREC.lock().unwrap_or_else(std::sync::PoisonError::into_inner) = Some(BgRec { dir: dir.clone(), ..Default::default() });
                let at: &'static str = if *b == "3" { "rot.infix_chosen" } else { "rot.opened" };
                flexi_logger::verif_hooks::set_point_handler(Some(Arc::new(move |name| {
                    use std::sync::atomic::Ordering::SeqCst;
                    let patience = std::time::Duration::from_secs(20);
                    if name == "cleanup.thread.send" { BG_SENT.fetch_add(1, SeqCst); }
                    if name == "cleanup.thread.done" { BG_DONE.fetch_add(1, SeqCst); }
                    if name == "cleanup.thread.act" {
                        let t0 = std::time::Instant::now();
                        while !BG_WINDOW.load(SeqCst) && t0.elapsed() < patience { std::thread::sleep(std::time::Duration::from_micros(50)); }
                    }
                    bg_record(name);
                    if name == at && BG_DONE.load(SeqCst) < BG_SENT.load(SeqCst) {
                        BG_WINDOW.store(true, SeqCst);
                        let t0 = std::time::Instant::now();
                        while BG_DONE.load(SeqCst) < BG_SENT.load(SeqCst) && t0.elapsed() < patience { std::thread::sleep(std::time::Duration::from_micros(50)); }
                        BG_WINDOW.store(false, SeqCst);
                    }
                })));
                "ok".into()
            }
            // a SLOW cleanup thread (every file operation of the thread takes a few milliseconds): when
            // shutdown() is called there is work left, and shutdown() must wait for it
            ["BGCLEAN", "5"] => {
                f.bg_cleanup = true;
                h.bounds_always = true;
                flexi_logger::verif_hooks::set_point_handler(Some(Arc::new(|name| {
                    if name == "cleanup.thread.act" { std::thread::sleep(std::time::Duration::from_millis(3)); }
                })));
                "ok".into()
            }
            ["BGCLEAN", b] => {
                f.bg_cleanup = *b != "0";
                BG_SENT.store(0, std::sync::atomic::Ordering::SeqCst);
                BG_DONE.store(0, std::sync::atomic::Ordering::SeqCst);
                bg_lockstep = *b == "1";
                if std::env::var_os("FVH_TRACE").is_some() && !bg_lockstep {
                    let d2 = dir.clone();
                    flexi_logger::verif_hooks::set_point_handler(Some(Arc::new(move |name| {
                        let mut l: Vec<String> = std::fs::read_dir(&d2).map(|rd| rd.flatten().map(|e| e.file_name().to_string_lossy().to_string()).collect()).unwrap_or_default();
                        l.sort();
                        eprintln!("TRACE {:?} {name} {:?}", std::thread::current().name().unwrap_or("?"), l);
                    })));
                }
                if bg_lockstep {
                    flexi_logger::verif_hooks::set_point_handler(Some(Arc::new(|name| {
                        if name == "cleanup.thread.send" { BG_SENT.fetch_add(1, std::sync::atomic::Ordering::SeqCst); }
                        if name == "cleanup.thread.done" { BG_DONE.fetch_add(1, std::sync::atomic::Ordering::SeqCst); }
                    })));
                }
                "ok".into()
            }
            // a pre-existing file that DOES follow the family pattern (left by somebody, or by an earlier life)
            ["PREFILE", name, content] => {
                std::fs::write(dir.join(unhexs(name).unwrap()), unhex(content).unwrap()).unwrap();
                "ok".into()
            }
            ["FOREIGN", name, content] => {
                let n = unhexs(name).unwrap();
                let c = unhex(content).unwrap();
                if n.ends_with('/') {
                    // a sub-directory named like a log file
                    std::fs::create_dir_all(dir.join(n.trim_end_matches('/'))).unwrap();
                } else {
                    std::fs::write(dir.join(&n), &c).unwrap();
                    if !nocheck_foreign { f.foreign_content.insert(n.clone(), c); }
                }
                f.foreign.push(n.trim_end_matches('/').to_string());
                "ok".into()
            }
            ["W", b, now, fl] | ["WRAW", b, now, fl] => {
                let bytes = unhex(b).unwrap();
                let now: u64 = now.parse().unwrap();
                let plan = parse_faults(fl);
                let has_fault = *fl != "-";
                h.faulty |= has_fault;
                ctx.report.count(if has_fault { "op.W.fault" } else { "op.W" });
                let before = list_dir(&dir, &f.foreign);
                let raw = t[0] == "WRAW";
                let w = f.ensure().clone();
                install_faults(plan);
                let caught = std::panic::catch_unwind(std::panic::AssertUnwindSafe(|| with_clock(now, || -> std::io::Result<()> {
                    if raw {
                        let mut ww = w.clone();
                        std::io::Write::write(&mut ww, &bytes).map(|_| ())
                    } else {
                        let le: &[u8] = if crlf() { b"\r\n" } else { b"\n" };
                        assert!(bytes.ends_with(le), "W payload must end with the line ending");
                        let payload = String::from_utf8(bytes[..bytes.len() - le.len()].to_vec()).expect("utf8 payload");
                        LogWriter::write(&*w, &mut DeferredNow::new(), &Record::builder().level(log::Level::Info).args(format_args!("{}", payload)).build())
                    }
                })));
                flexi_logger::verif_hooks::set_fault_handler(None);
                let r: std::io::Result<()> = match caught {
                    Ok(r) => r,
                    Err(_) => {
                        ctx.report.fail(&case_id, "panic", &format!("line {li}: the log call panicked (directory: {:?})", list_dir(&dir, &[])));
                        out.push("panic".into());
                        continue;
                    }
                };
                let ev = ech.new_events();
                let ok = r.is_ok() && ev.is_empty();
                if h.trunc_pending {
                    h.trunc_pending = false;
                    h.recs.clear();
                }
                if r.is_ok() && !ev.iter().any(|k| k == "write") {
                    h.recs.push((bytes.clone(), now));
                    if buffered {
                        h.unflushed = true;
                    }
                }
                let after = list_dir(&dir, &f.foreign);
                if !is_async && after.len() > before.len() && !before.is_empty() {
                    h.rotations += 1;
                }
                if is_async { "ok".into() } else if ok { "ok".into() } else { "err".into() }
            }
            ["WP", b, now] | ["CW", b, now, ..] => {
                // the names of the points the write passes (WP) / the kill at one of them (CW, child only)
                let bytes = unhex(b).unwrap();
                let now: u64 = now.parse().unwrap();
                let w = f.ensure().clone();
                let rec: std::sync::Arc<Mutex<Vec<String>>> = Default::default();
                let rec2 = rec.clone();
                let kill: Option<(String, usize)> = if t[0] == "CW" { Some((t[3].to_string(), t[4].parse().unwrap())) } else { None };
                let child = CRASH_CHILD.lock().unwrap().as_ref().map(|c| (c.dir.clone(), c.side.clone()));
                flexi_logger::verif_hooks::set_point_handler(Some(Arc::new(move |name| {
                    let mut g = rec2.lock().unwrap();
                    if let (Some((kn, occ)), Some((d, side))) = (&kill, &child) {
                        if name == kn && g.iter().filter(|x| x.as_str() == name).count() == *occ {
                            dump_creation_table(d, side);
                            std::process::abort();
                        }
                    }
                    if !(name.starts_with("sync.") || name.starts_with("async.")) { g.push(name.to_string()); }
                })));
                let payload = String::from_utf8(bytes[..bytes.len() - 1].to_vec()).unwrap();
                let r = with_clock(now, || LogWriter::write(&*w, &mut DeferredNow::new(), &Record::builder().level(log::Level::Info).args(format_args!("{}", payload)).build()));
                flexi_logger::verif_hooks::set_point_handler(None);
                if r.is_ok() { h.recs.push((bytes.clone(), now)); }
                let names = rec.lock().unwrap().clone();
                if t[0] == "CW" { "nopoint".into() } else if names.is_empty() { "-".into() } else { names.join(",") }
            }
            ["KW", recs, now, _delay] => {
                // (child only) a burst of writes; the parent kills this process somewhere in it
                let now: u64 = now.parse().unwrap();
                let w = f.ensure().clone();
                if let Some((d, side, acks)) = CRASH_CHILD.lock().unwrap().as_ref().map(|c| (c.dir.clone(), c.side.clone(), c.acks.clone())) {
                    use std::io::Write as _;
                    let (d2, side2) = (d.clone(), side.clone());
                    flexi_logger::verif_hooks::set_point_handler(Some(Arc::new(move |name| {
                        if name == "open.after" { dump_creation_table_ino(&d2, &side2); }
                    })));
                    dump_creation_table_ino(&d, &side);
                    let mut fa = std::fs::OpenOptions::new().create(true).append(true).open(&acks).unwrap();
                    std::fs::write(acks.with_extension("go"), b"go").unwrap();
                    for (k, x) in recs.split(',').enumerate() {
                        let bytes = unhex(x).unwrap();
                        let payload = String::from_utf8(bytes[..bytes.len() - 1].to_vec()).unwrap();
                        let r = with_clock(now, || LogWriter::write(&*w, &mut DeferredNow::new(), &Record::builder().level(log::Level::Info).args(format_args!("{}", payload)).build()));
                        if r.is_ok() { writeln!(fa, "K{k}").unwrap(); }
                    }
                    flexi_logger::verif_hooks::set_point_handler(None);
                    // not killed in time: the process ends normally; the parent sees every record acknowledged
                    dump_creation_table_ino(&d, &side);
                }
                "match".into()
            }
            ["RP", now] | ["CROT", now, ..] => {
                let now: u64 = now.parse().unwrap();
                let w = f.ensure().clone();
                let rec: std::sync::Arc<Mutex<Vec<String>>> = Default::default();
                let rec2 = rec.clone();
                let kill: Option<(String, usize)> = if t[0] == "CROT" { Some((t[2].to_string(), t[3].parse().unwrap())) } else { None };
                let child = CRASH_CHILD.lock().unwrap().as_ref().map(|c| (c.dir.clone(), c.side.clone()));
                flexi_logger::verif_hooks::set_point_handler(Some(Arc::new(move |name| {
                    let mut g = rec2.lock().unwrap();
                    if let (Some((kn, occ)), Some((d, side))) = (&kill, &child) {
                        if name == kn && g.iter().filter(|x| x.as_str() == name).count() == *occ {
                            dump_creation_table(d, side);
                            std::process::abort();
                        }
                    }
                    g.push(name.to_string());
                })));
                let r = with_clock(now, || w.rotate());
                flexi_logger::verif_hooks::set_point_handler(None);
                if r.is_ok() { h.rotations += 1; h.forced = true; h.forced_unpositioned = true; }
                let names = rec.lock().unwrap().clone();
                if t[0] == "CROT" { "nopoint".into() } else if names.is_empty() { "-".into() } else { names.join(",") }
            }
            ["ROT", now, fl] => {
                let now: u64 = now.parse().unwrap();
                let plan = parse_faults(fl);
                h.faulty |= *fl != "-";
                ctx.report.count("op.ROT");
                let w = f.ensure().clone();
                install_faults(plan);
                let r = match std::panic::catch_unwind(std::panic::AssertUnwindSafe(|| with_clock(now, || w.rotate()))) {
                    Ok(r) => r,
                    Err(_) => {
                        flexi_logger::verif_hooks::set_fault_handler(None);
                        ctx.report.fail(&case_id, "panic", &format!("line {li}: trigger_rotation panicked (directory: {:?})", list_dir(&dir, &[])));
                        out.push("panic".into());
                        continue;
                    }
                };
                flexi_logger::verif_hooks::set_fault_handler(None);
                let ev = ech.new_events();
                if r.is_ok() {
                    h.rotations += 1;
                    h.forced = true;
                    h.forced_at.push(h.recs.len());
                    h.forced_times.push((h.recs.len(), now));
                }
                if r.is_ok() && ev.is_empty() { "ok".into() } else { "err".into() }
            }
            ["FLUSH"] => {
                ctx.report.count("op.FLUSH");
                let w = f.ensure().clone();
                let r = LogWriter::flush(&*w);
                let ev = ech.new_events();
                if !is_async {
                    h.unflushed = false;
                }
                if r.is_ok() && ev.is_empty() { "ok".into() } else { "err".into() }
            }
            ["SHUT"] => {
                ctx.report.count("op.SHUT");
                BG_WINDOW.store(true, std::sync::atomic::Ordering::SeqCst);
                if let Some((w, _)) = &f.w {
                    w.shutdown();
                }
                h.unflushed = false;
                let ev = ech.new_events();
                if ev.is_empty() { "ok".into() } else { "err".into() }
            }
            ["RESTART", rest @ ..] if rest.len() == 5 => {
                ctx.report.count("op.RESTART");
                BG_WINDOW.store(true, std::sync::atomic::Ordering::SeqCst);
                f.w = None; // drop = shutdown of the old logger
                if bg_adversarial {
                    let t0 = std::time::Instant::now();
                    while BG_DONE.load(std::sync::atomic::Ordering::SeqCst) < BG_SENT.load(std::sync::atomic::Ordering::SeqCst) && t0.elapsed().as_secs() < 20 { std::thread::yield_now(); }
                    BG_WINDOW.store(false, std::sync::atomic::Ordering::SeqCst);
                }
                h.unflushed = false;
                f.cfg = parse_cfg(rest);
                h.restarts += 1;
                // documented truncation of a non-rotated file that is re-opened without append: it
                // happens when the new logger writes for the first time — a run that never writes
                // truncates nothing, and the next run decides anew
                h.trunc_pending = f.cfg.rot.is_none() && !f.cfg.append;
                let _ = ech.new_events();
                "ok".into()
            }
            ["RESET", rest @ ..] if rest.len() == 10 => {
                ctx.report.count("op.RESET");
                // through the public entry point `LoggerHandle::reset_flw` when the case runs a Logger
                let via_handle = f.via_logger && !VIA_ADD.load(std::sync::atomic::Ordering::SeqCst);
                if via_handle && f.lg.is_none() {
                    let (b, hd) = logger(&dir, &f.spec, &f.cfg, f.mode, &f.errchan);
                    f.lg = Some((b, vec![hd]));
                }
                let w = if via_handle { None } else { Some(f.ensure().clone()) };
                f.spec = parse_spec(&rest[..5]);
                f.cfg = parse_cfg(&rest[5..]);
                let b = builder(&dir, &f.spec, &f.cfg, f.bg_cleanup, f.mode);
                let r = match &w {
                    Some(w) => w.reset(&b),
                    None => {
                        ctx.report.count("op.RESET.via-handle");
                        // the write mode cannot be changed by a reset: the new builder takes it from the
                        // configuration the handle reports (a Logger hands its file writer the mode WITHOUT flushing)
                        let hd = &f.lg.as_ref().unwrap().1[0];
                        let _ = hd.flw_config();
                        let b = match f.mode { Some(m) => b.write_mode(without_flushing(m)), None => b };
                        hd.reset_flw(&b)
                    }
                };
                f.moved_names.clear();
                h.recs.clear();
                h.reopen_mark = None;
                h.reset_seen = true;
                if r.is_ok() { "ok".into() } else { "err".into() }
            }
            ["EXTREN"] | ["EXTRM"] => {
                ctx.report.count(&format!("op.{}", t[0]));
                h.reopen_mark = None;
                // direct namings: the file written to is the newest one of the family
                let direct = f.cfg.rot.as_ref().map_or(false, |r| r.naming == "numd" || r.naming == "tsd");
                let p = if direct {
                    f.reading_order().iter().filter(|n| !n.starts_with("moved-")).next_back().map_or(f.current_path(), |n| dir.join(n))
                } else { f.current_path() };
                if (f.w.is_some() || f.lg.is_some()) && p.exists() {
                    if t[0] == "EXTREN" {
                        let nm = format!("moved-{:04}.bak", f.moved);
                        std::fs::rename(&p, dir.join(&nm)).unwrap();
                        f.moved_names.push(nm);
                    } else {
                        std::fs::remove_file(&p).unwrap();
                        h.lossy = true;
                    }
                    f.moved += 1;
                }
                "ok".into()
            }
            // the external tool puts a fresh, empty file at the path of the current file (if none is there)
            ["EXTTOUCH", now] => {
                ctx.report.count("op.EXTTOUCH");
                let now: u64 = now.parse().unwrap();
                let direct = f.cfg.rot.as_ref().map_or(false, |r| r.naming == "numd" || r.naming == "tsd");
                // (direct namings: the path of the current file is not known to an outsider once it is gone)
                if (f.w.is_some() || f.lg.is_some()) && !direct {
                    let p = f.current_path();
                    if !p.exists() {
                        std::fs::write(&p, b"").unwrap();
                        flexi_logger::verif_hooks::set_creation(&p, stamp_to_local(now));
                    }
                }
                "ok".into()
            }
            ["REOPEN", now, fl] => {
                let now: u64 = now.parse().unwrap();
                ctx.report.count("op.REOPEN");
                if f.w.is_none() {
                    "ok".into()
                } else {
                    let w = f.ensure().clone();
                    install_faults(parse_faults(fl));
                    h.faulty |= *fl != "-";
                    let r = with_clock(now, || w.reopen_outputfile());
                    flexi_logger::verif_hooks::set_fault_handler(None);
                    h.unflushed = false;
                    if r.is_ok() { h.reopen_mark = Some((h.recs.len(), list_dir(&dir, &[]).len())); }
                    if r.is_ok() { "ok".into() } else { "err".into() }
                }
            }
            ["SNAP"] => {
                let names = list_dir(&dir, &f.foreign);
                if names.is_empty() {
                    "-".into()
                } else {
                    names.iter().map(|n| {
                        let mut c = read_file(&dir.join(n));
                        // a .gz that the killed process had not finished holds nothing readable
                        if h.crashed.is_some() && c.starts_with(b"<corrupt gz>") { c.clear(); }
                        format!("{}:{}", hexs(n), hex(&c))
                    }).collect::<Vec<_>>().join(" ")
                }
            }
            ["READ"] => {
                let mut all = Vec::new();
                for n in f.reading_order() {
                    all.extend(read_file(&dir.join(&n)));
                }
                oracles(ctx, &case_id, li, &f, &h, !h.unflushed);
                hex(&all)
            }
            // do the names of the files carry the start time of the program (`_YYYY-MM-DD_hh-mm-ss` right after
            // the basename/discriminant, before the infix)?
            ["HASSTART"] => {
                let re = regex::Regex::new(r"(^|_)\d{4}-\d{2}-\d{2}_\d{2}-\d{2}-\d{2}(_|\.|$)").unwrap();
                let any = list_dir(&dir, &f.foreign).iter().any(|n| re.is_match(n));
                if any { ctx.report.fail(&case_id, "names-carry-start-time", &format!("line {li}: with rotation (or a suppressed time stamp) the names must not carry the start time: {:?}", list_dir(&dir, &[]))); }
                if any { "1".into() } else { "0".into() }
            }
            // the stream oracle alone (histories the model does not predict, `CASE robust`)
            ["CHECKSTREAM"] => {
                ctx.report.count("op.CHECKSTREAM");
                oracles(ctx, &case_id, li, &f, &h, !h.unflushed);
                "ok".into()
            }
            ["PARTS"] => {
                let v = f.reading_order().iter().map(|n| read_file(&dir.join(n)).len().to_string()).collect::<Vec<_>>();
                if v.is_empty() { "-".into() } else { v.join(",") }
            }
            ["LINK"] => match std::fs::read_link(dir.join("current.link")) {
                Ok(p) => {
                    let target = p.file_name().unwrap().to_string_lossy().to_string();
                    // oracle (C16): the link resolves to the file that is currently written to. Judged
                    // where the harness can tell that file independently: unbuffered, and the newest
                    // file of the family ends with the record written last (no rotation since).
                    if f.cfg.symlink && f.w.is_some() && !buffered && !is_async && !h.lossy && !h.faulty && f.moved == 0 && !h.reset_seen {
                        if let Some((last, _)) = h.recs.last() {
                            let order = f.reading_order();
                            if let Some(newest) = order.last() {
                                // (a record that is only a line ending says nothing about where it is)
                                let ends = |n: &String| { let c = std::fs::read(dir.join(n)).unwrap_or_default(); last.len() > 2 && !c.is_empty() && c.ends_with(last) };
                                if ends(newest) && &target != newest {
                                    ctx.report.fail(&case_id, "link-not-current", &format!("line {li}: the symlink resolves to {target:?}, but the record written last is at the end of {newest:?} (files {order:?})"));
                                }
                            }
                        }
                    }
                    hexs(&target)
                }
                Err(_) => "-".into(),
            },
            ["EXIST", sel, custom] => {
                let via_handle = f.via_logger && !VIA_ADD.load(std::sync::atomic::Ordering::SeqCst);
                if via_handle && f.lg.is_none() {
                    let (b, hd) = logger(&dir, &f.spec, &f.cfg, f.mode, &f.errchan);
                    f.lg = Some((b, vec![hd]));
                }
                let w = if via_handle { None } else { Some(f.ensure().clone()) };
                let mut s = if sel.contains('p') { flexi_logger::LogfileSelector::default() } else { flexi_logger::LogfileSelector::none() };
                if sel.contains('c') { s = s.with_compressed_files(); }
                if sel.contains('r') { s = s.with_r_current(); }
                if *custom != "_" { s = s.with_custom_current(&unhexs(&custom[1..]).unwrap()); }
                let listed = match &w {
                    Some(w) => w.existing_log_files(&s),
                    None => { ctx.report.count("op.EXIST.via-handle"); f.lg.as_ref().unwrap().1[0].existing_log_files(&s) }
                };
                match listed {
                    Ok(v) => {
                        let mut got: Vec<String> = v.iter().map(|p| p.file_name().unwrap().to_string_lossy().to_string()).collect();
                        got.sort();
                        // oracle (C16): exactly the existing files of the family that the selector asks for
                        let all = list_dir(&dir, &f.foreign);
                        for g in &got {
                            if f.cfg.rot.is_some() && !all.contains(g) {
                                ctx.report.fail(&case_id, "listed-file-does-not-exist", &format!("line {li}: existing_log_files lists {g:?} which is not in the directory {all:?}"));
                            }
                        }
                        if got.is_empty() { "-".into() } else { got.iter().map(|g| hexs(g)).collect::<Vec<_>>().join(" ") }
                    }
                    Err(e) => format!("error {e:?}"),
                }
            }
            ["ERRS"] => {
                let ev = ech.new_for_errs();
                if ev.is_empty() { "-".into() } else { ev.join(",") }
            }
            _ => format!("bad-op {line}"),
        };
        if let Some(c) = CRASH_CHILD.lock().unwrap().as_ref() {
            use std::io::Write as _;
            let mut fa = std::fs::OpenOptions::new().create(true).append(true).open(&c.acks).unwrap();
            writeln!(fa, "{li}").unwrap();
        }
        if bg_lockstep {
            let t0 = std::time::Instant::now();
            while BG_DONE.load(std::sync::atomic::Ordering::SeqCst) < BG_SENT.load(std::sync::atomic::Ordering::SeqCst)
                && t0.elapsed().as_secs() < 20 {
                std::thread::yield_now();
            }
        }
        out.push(ans);
    }
    if bg_adversarial { BG_WINDOW.store(true, std::sync::atomic::Ordering::SeqCst); }
    let bg_any = bg_lockstep || bg_adversarial;
    let f_via_logger = f.via_logger;
    drop(f);
    let _ = bg_any;
    flexi_logger::verif_hooks::set_point_handler(None);
    *BGREC.lock().unwrap_or_else(std::sync::PoisonError::into_inner) = None;
    flexi_logger::verif_hooks::set_virtual_now(None);
    flexi_logger::verif_hooks::set_fault_handler(None);
    if let Some(c) = CRASH_CHILD.lock().unwrap().as_ref() {
        // the first life ended without reaching the kill point: hand the creation times over
        flexi_logger::verif_hooks::set_virtual_now(Some(stamp_to_local(20200101000000)));
        if !lines.iter().any(|l| l.starts_with("KW ")) { dump_creation_table(&c.dir, &c.side); }
    }
    if !in_child && std::env::var_os("FVH_KEEP").is_none() { let _ = std::fs::remove_dir_all(&dir); let _ = std::fs::remove_dir_all(second_dir(&dir)); }
    if h.rotations > 0 || h.restarts > 0 || (f_via_logger && h.recs.len() > 1) {
        ctx.report.nontrivial_case(lines);
    }
    ctx.report.add("rotations", h.rotations);
    if ctx.report.samples.len() < 3 {
        ctx.report.samples.push(lines.join(" | "));
    }
    out
}
