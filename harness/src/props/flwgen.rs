//! generators for the `flw` model family
use crate::util::{hex, hexs, Rng};
use chrono::{Datelike, TimeZone, Timelike, Utc};

pub fn pack(epoch: i64) -> u64 {
    let t = Utc.timestamp_opt(epoch, 0).unwrap();
    (t.year() as u64) * 10_000_000_000 + (t.month() as u64) * 100_000_000 + (t.day() as u64) * 1_000_000
        + (t.hour() as u64) * 10_000 + (t.minute() as u64) * 100 + t.second() as u64
}

fn n_cases(tier: &str, quick: u64, thorough: u64) -> u64 {
    if tier == "thorough" { thorough } else { quick }
}

pub struct Clock {
    pub epoch: i64,
    pub small: bool, // only steps of seconds/minutes, never across a day boundary
}
impl Clock {
    pub fn new(r: &mut Rng) -> Self {
        // around calendar edges: end of Feb in a leap year, end of year, plain day
        let bases = [1_709_251_190i64 /* 2024-02-29 23:59:50 */, 1_735_689_590 /* 2024-12-31 23:59:50 */, 1_700_000_000, 1_711_843_195 /* 2024-03-30 23:59:55 */,
                     1_718_447_390 /* 2024-06-15 10:29:50: half-hour and quarter-hour edges, where zones with such offsets have their UTC hour boundary */,
                     1_718_446_490 /* 10:14:50 */, 1_718_448_290 /* 10:44:50 */];
        Clock { epoch: *r.pick(&bases) + r.below(20) as i64, small: false }
    }
    /// mostly stands still or moves by seconds; sometimes jumps over a minute/hour/day boundary
    pub fn tick(&mut self, r: &mut Rng) -> u64 {
        let d = match r.below(20) {
            0..=9 => 0,
            10..=14 => 1,
            15 => 2 + r.below(5) as i64,
            16 => *r.pick(&[60i64, 60, 900, 1800, 2700]),
            17 => 3600,
            18 => 86_400,
            _ => 86_400 * 31,
        };
        let d = if self.small { d.min(60) } else { d };
        self.epoch += d;
        pack(self.epoch)
    }
    pub fn now(&self) -> u64 {
        pack(self.epoch)
    }
}

pub fn record(seq: u64, len: u64) -> Vec<u8> {
    // a line of exactly `len` bytes (>= 1) ending with '\n', carrying its sequence number
    let mut s = format!("{seq}:");
    let body = (len - 1) as usize;
    if s.len() > body {
        s = "#".repeat(body);
    } else {
        while s.len() < body {
            s.push((b'a' + (seq % 26) as u8) as char);
        }
    }
    s.push('\n');
    s.into_bytes()
}

pub struct Gen {
    pub spec: String,
    pub suffix: Option<String>,
    pub naming: &'static str,
}

pub fn gen_spec(r: &mut Rng, naming: &str) -> (String, bool) {
    // names that contain the separator-plus-'r' pattern of the infix are part of the mix
    let basename = *r.pick(&["app", "app", "my_prog", "", "a.b", "my_router", "x_r00001y"]);
    let discr = if basename.is_empty() || r.chance(1, 3) { Some(*r.pick(&["d1", "x_y", "node_red", "r7"])) } else { None };
    let suffix = *r.pick(&[Some("log"), Some("log"), Some("dat"), None]);
    // a dotted basename without suffix is a known finding (listing reads the dot as an extension)
    let suffix = if basename.contains('.') && suffix.is_none() { Some("log") } else { suffix };
    let is_ts = naming.starts_with("ts");
    let (cur, fmt) = if is_ts && r.chance(1, 3) {
        (if naming == "ts" { Some(*r.pick(&["rNOW", "current"])) } else { None }, r.below(3))
    } else {
        (None, 0)
    };
    let o = |x: Option<&str>| x.map_or("_".to_string(), |v| format!("s{}", hexs(v)));
    (format!("SPEC {} {} {} {} {}", hexs(basename), o(discr), o(suffix), o(cur), fmt), suffix.is_some())
}

pub const NAMINGS: [&str; 4] = ["num", "numd", "ts", "tsd"];

/// TimestampsDirect + append onto `.restart-NNNN` siblings: generated again since the `fix:`
/// (transition switch: FVH_LIFT_TSD=0 keeps the old guard)
fn lift_tsd() -> bool { std::env::var("FVH_LIFT_TSD").as_deref() != Ok("0") }

pub fn gen_c01(tier: &str, seed: u64) -> Vec<Vec<String>> {
    let mut root = Rng::new(seed ^ 0xC01);
    let mut cases = Vec::new();
    for k in 0..n_cases(tier, 400, 6000) {
        let mut r = root.fork();
        let mut c = vec![format!("CASE flw C01 {k}")];
        let naming = *r.pick(&NAMINGS);
        let (spec, has_suffix) = gen_spec(&mut r, naming);
        // a format coarser than a second (date only): many rotations per name period
        let coarse = naming.starts_with("ts") && r.chance(1, 4);
        let spec = if coarse { spec.rsplitn(2, ' ').nth(1).map(|s| format!("{s} 4")).unwrap() } else { spec };
        c.push(spec);
        let n: u64 = *r.pick(&[0, 1, 5, 16, 40, 64]);
        let (ms, age) = match r.below(4) {
            0 | 1 => (Some(n), None),
            2 => (None, Some(*r.pick(&['s', 'm', 'h', 'd']))),
            _ => (Some(n), Some(*r.pick(&['s', 'm', 'h', 'd']))),
        };
        // (the documentation asks for an age that is not finer than the format)
        let age = if coarse { age.map(|_| 'd') } else { age };
        let cap: Option<u64> = match r.below(5) {
            0 | 1 => None,
            2 => Some(*r.pick(&[1, 4, 8])),
            3 => Some(n.max(1)),
            _ => Some(8192),
        };
        let rot = format!("{};{};{};never", ms.map_or("_".into(), |x| x.to_string()), age.map_or("_".into(), |x| x.to_string()), naming);
        c.push(format!("CFG {rot} 0 {} {} {}", cap.map_or("_".into(), |x| x.to_string()), if r.chance(1, 4) { 1 } else { 0 }, if has_suffix { 1 } else { 0 }));
        let mut clock = Clock::new(&mut r);
        let nops = r.range(3, if tier == "thorough" { 120 } else { 40 });
        let mut seq = 0u64;
        let mut had_huge = false;
        for i in 0..nops {
            match r.below(12) {
                0 => c.push(format!("ROT {} -", clock.tick(&mut r))),
                1 => {
                    c.push("FLUSH".into());
                    c.push("READ".into());
                    c.push("PARTS".into());
                }
                _ => {
                    let len = match r.below(8) {
                        0 => 1,
                        1 => 2,
                        2 => n.max(2) - 1,
                        3 => n.max(1),
                        4 => n + 1,
                        5 => n * 3 + 7,
                        6 => cap.unwrap_or(10).min(300) + 1,
                        _ => r.range(1, 30),
                    };
                    // now and then a record far above every buffer the crate keeps between records — only
                    // near the end of a history (every later READ repeats it) and once per history
                    let len = if !had_huge && i + 4 >= nops && r.chance(1, 30) { had_huge = true; *r.pick(&[20_000u64, 70_000, 140_000]) } else { len };
                    c.push(format!("W {} {} -", hex(&record(seq, len.max(1))), clock.tick(&mut r)));
                    seq += 1;
                    if cap.is_none() && r.chance(1, 3) {
                        c.push("READ".into());
                    }
                }
            }
        }
        c.push("FLUSH".into());
        c.push("READ".into());
        c.push("PARTS".into());
        c.push("SNAP".into());
        c.push("LINK".into());
        c.push("SHUT".into());
        c.push("READ".into());
        c.push("END".into());
        cases.push(c);
    }
    // the stream continued by later runs (append), with every timestamp format incl. the one whose
    // text order is not the time order: what "oldest to newest" means must not depend on the names
    cases.extend(gen_c06_across_month_end(tier, seed ^ 0xC01E).into_iter().take(n_cases(tier, 40, 600) as usize).map(|mut c| { c[0] = c[0].replacen("C06 ", "C01 ", 1); c }));
    // records logged from within the Display implementation of a logged value (the code has a
    // separate path for them), with the configured line ending CRLF, into a file
    cases.extend(crate::props::robust::gen_c20_recursive(tier, seed).into_iter().map(|mut c| { c[0] = c[0].replacen("C20 ", "C01 ", 1); c }));
    cases
}

// ------------------------------------------------------------------------------------------
// generic history generator
// ------------------------------------------------------------------------------------------

#[derive(Clone)]
pub struct Opts {
    pub prop: &'static str,
    pub size: bool,          // size part allowed
    pub age: bool,           // age part allowed
    pub force_rot: bool,     // trigger_rotation ops
    pub restarts: u64,       // max number of restarts
    pub cleanup: bool,       // cleanup strategies
    pub faults: bool,
    pub ext: bool,           // external rename/remove + reopen, reset
    pub modes: bool,         // MODE line (incl. async)
    pub max_ops: u64,
    pub namings: &'static [&'static str],
    pub foreign: bool,       // near-miss foreign files in the directory (C14)
    pub exist: bool,         // existing_log_files observations (C16)
    pub bg: u8,            // cleanup in the background thread: observations only after shutdown (C07)
}

/// A public `WriteMode` variant for a `MODE` line: (text, the capacity the file writer's BufWriter
/// will have, asynchronous?). About a third are the variants with defaults (`BufferDontFlush`,
/// `BufferAndFlush`, `Async`, `SupportCapture`) or with a flusher thread that really ticks
/// (every 2..7 ms — its flushes fall at arbitrary instants between and during the operations).
pub fn pick_mode(r: &mut Rng, caps: &[u64], pools: &[u64], msgs: &[u64]) -> (String, Option<u64>, bool) {
    match r.below(16) {
        0 | 1 | 2 => ("direct".to_string(), None, false),
        3 | 4 | 5 => { let cc = *r.pick(caps); (format!("buf:{cc}"), Some(cc), false) }
        6 => { let cc = *r.pick(caps); (format!("bufflush:{cc}"), Some(cc), false) }
        7 => { let cc = *r.pick(caps); (format!("bufflush:{cc}:{}", r.pick(&[2u64, 3, 7])), Some(cc), false) }
        8 => ("bufdef".to_string(), Some(8192), false),
        9 => ("bufflushdef".to_string(), Some(8192), false),
        10 => ("capture".to_string(), None, false),
        11 => ("asyncdef".to_string(), None, true),
        12 => (format!("async:{}:{}:{}", r.pick(pools), r.pick(msgs), r.pick(&[2u64, 3, 7])), None, true),
        _ => (format!("async:{}:{}", r.pick(pools), r.pick(msgs)), None, true),
    }
}

fn cfg_line(rot: &Option<String>, append: bool, cap: Option<u64>, symlink: bool, has_suffix: bool) -> String {
    format!("{} {} {} {} {}", rot.clone().unwrap_or("-".into()), append as u8, cap.map_or("_".into(), |x| x.to_string()), symlink as u8, has_suffix as u8)
}

pub fn gen_hist(o: &Opts, r: &mut Rng, k: u64, tier: &str) -> Vec<String> {
    let mut c = vec![format!("CASE flw {} {}{k}", o.prop, ["", "bl", "bf", "ba", "bb"][o.bg as usize])];
    // C15: the configured line ending (`use_windows_line_ending`) is part of what every write mode
    // has to reproduce
    let crlf = o.prop == "C15" && r.chance(1, 3);
    if crlf { c.push("NOTE crlf".into()); }
    let record = |seq: u64, len: u64| { let mut b = record(seq, len); if crlf { let n = b.len(); b.insert(n - 1, b'\r'); } b };
    if o.prop == "C09" && r.chance(2, 3) {
        // zones with an offset that is not a whole number of hours (and the extremes): fixed-offset
        // POSIX strings, no dependence on the zone database
        c.push(format!("NOTE tz {}", r.pick_s(&["<+0530>-5:30", "<-0330>3:30", "<+0545>-5:45", "<+14>-14", "<-12>12", "<+0845>-8:45", "<-0930>9:30"])));
    }
    let naming = *r.pick(o.namings);
    let no_rot = o.ext && r.chance(1, 3) || (o.prop == "C06" && r.chance(1, 8));
    let (spec, has_suffix) = gen_spec(r, naming);
    // (custom formats used to be kept out of histories with restarts because of the 20-byte slice in
    //  the start-up listing; that defect is repaired, the guard is gone)
    // C06: restarts with every format, incl. the day-first one (text order ≠ time order)
    let dayfirst = o.prop == "C06" && !o.cleanup && naming.starts_with("ts") && r.chance(1, 3);   // (with cleanup: known finding C07-day-first-format)
    let spec = if dayfirst { spec.rsplitn(2, ' ').nth(1).map(|s| format!("{s} 3")).unwrap() } else { spec };
    c.push(spec);
    let n: u64 = *r.pick(&[0, 1, 5, 16, 40, 64]);
    let ages = ['s', 'm', 'h', 'd'];
    let age_inactive = o.prop == "C08" && r.chance(1, 3);
    let (ms, age) = match (o.size, o.age) {
        (true, false) if age_inactive => (Some(n), Some('d')),
        (true, false) => (Some(n), None),
        (false, true) => (None, Some(*r.pick(&ages))),
        _ => match r.below(4) {
            0 | 1 => (Some(n), None),
            2 => (None, Some(*r.pick(&ages))),
            _ => (Some(if o.prop == "C09" { 1_000_000 } else { n }), Some(*r.pick(&ages))),
        },
    };
    // fault histories (C19): half of them without cleanup, where the stream oracle can judge
    // what a failed step has cost
    let cleanup = if o.cleanup && !(o.faults && r.chance(1, 2)) {
        let (kk, mm) = if has_suffix { (r.below(4), r.below(4)) } else { (r.below(4), 0) };
        if kk + mm == 0 && r.chance(1, 2) { format!("{},{}", 1, 0) } else if kk + mm == 0 { "0,1".to_string() } else { format!("{kk},{mm}") }
    } else {
        "never".to_string()
    };
    let cleanup = if !has_suffix && cleanup == "0,1" { "1,0".to_string() } else { cleanup };
    let rot = if no_rot { None } else { Some(format!("{};{};{};{}", ms.map_or("_".into(), |x| x.to_string()), age.map_or("_".into(), |x| x.to_string()), naming, cleanup)) };
    let mut cap: Option<u64> = match r.below(5) {
        0 | 1 => None,
        2 => Some(*r.pick(&[1, 4, 8])),
        3 => Some(n.max(1)),
        _ => Some(8192),
    };
    let mut is_async = false;
    if o.modes {
        let (m, cc, a) = pick_mode(r, &[1, 7, 64, 8192], &[1, 2, 3, 50], &[0, 1, 10, 200]);
        cap = cc;
        is_async = a;
        c.push(format!("MODE {m}"));
    }
    let symlink = r.chance(1, 4);
    if o.bg == 1 { c.push("BGCLEAN 1".into()); /* lock-step: the schedule of the synchronous cleanup */ }
    if o.bg >= 2 { c.push(format!("BGCLEAN {}", o.bg)); is_async = true; /* free-running or adversarial: no intermediate observations */ }
    let mut append = o.restarts > 0 && r.chance(1, 2);
    c.push(format!("CFG {}", cfg_line(&rot, append, cap, symlink, has_suffix)));
    if o.foreign {
        let sp = crate::props::flw::parse_spec(&crate::util::tokens(&c[1])[1..]);
        let numbers = naming.starts_with("num");
        for (i, n) in crate::props::names::near_misses(r, &sp, numbers).into_iter().enumerate() {
            c.push(format!("FOREIGN {} {}", hexs(&n), hexs(&format!("foreign content {i}\n"))));
        }
        if r.chance(1, 3) {
            // a sub-directory named like a rotated file
            let fixed = crate::props::names::fixed_part(&sp);
            c.push(format!("FOREIGN {} -", hexs(&format!("{fixed}{}r00003.d/", if fixed.is_empty() { "" } else { "_" }))));
        }
    }
    let mut clock = Clock::new(r);
    if age_inactive {
        // the whole history (incl. restarts) stays within one day: 2024-06-15 10:00:00 UTC + small steps
        clock = Clock { epoch: 1_718_445_600 + r.below(1000) as i64, small: true };
    }
    let frozen = is_async && o.bg == 0;
    // C06, TimestampsDirect: half of the histories give every operation its own second
    let distinct = o.prop == "C06" && naming == "tsd" && (dayfirst || r.chance(1, 2));
    let nops = r.range(3, if tier == "thorough" { o.max_ops * 3 } else { o.max_ops });
    let mut seq = 0u64;
    let mut restarts_left = if o.restarts > 0 { r.range(1, o.restarts) } else { 0 };
    let mut written_since_start = false;
    let fault_kinds = ["open=0", "rename=0", "write=0", "remove=0", "gz=0", "remove=1", "gzcopy=0", "gzfinish=0", "gzcopy=1"];
    for i in 0..nops {
        let tick = |clock: &mut Clock, r: &mut Rng| if frozen { clock.now() } else { if distinct { clock.epoch += 1; } clock.tick(r) };
        let roll = r.below(24);
        if roll == 0 && o.force_rot && rot.is_some() && !is_async {
            let fl = if o.faults && r.chance(1, 4) { r.pick(&fault_kinds).to_string() } else { "-".into() };
            c.push(format!("ROT {} {fl}", tick(&mut clock, r)));
        } else if roll == 1 {
            // (async: the flush is a message in the channel, nothing can be observed right after it —
            //  but it must not disturb the records around it)
            c.push("FLUSH".into());
            if !is_async {
                c.push("READ".into());
                c.push("PARTS".into());
            }
        } else if roll == 2 && restarts_left > 0 && i > 0 {
            restarts_left -= 1;
            c.push("SHUT".into());
            c.push("READ".into());
            // restart in the same second or later
            if r.chance(1, 2) { clock.epoch += if clock.small { *r.pick(&[1i64, 2, 61]) } else { *r.pick(&[1i64, 2, 61, 3601, 86_401]) }; }
            append = r.chance(1, 2) || (dayfirst && distinct && r.chance(1, 2));
            // known findings kept out of the random stream (see known_findings.json):
            //   tsd + append after same-second restart files (base file is re-opened)
            //   (it needs `.restart-NNNN` files, i.e. two files started within one second: histories in
            //   which every operation has its own second cannot produce them and keep the append)
            if naming == "tsd" && append && !distinct && !lift_tsd() { append = false; }
            if distinct { clock.epoch += 1; }
            c.push(format!("RESTART {}", cfg_line(&rot, append, cap, symlink, has_suffix)));
            written_since_start = false;
        } else if roll == 3 && o.ext && written_since_start {
            c.push(if r.chance(3, 4) { "EXTREN".into() } else { "EXTRM".into() });
            if r.chance(1, 3) {
                c.push(format!("W {} {} -", hex(&record(seq, r.range(1, 20))), tick(&mut clock, r)));
                seq += 1;
            }
            // (the external tool may have put a fresh, empty file at the path already — logrotate's `create`)
            if r.chance(1, 3) { c.push(format!("EXTTOUCH {}", clock.now())); }
            c.push(format!("REOPEN {} -", tick(&mut clock, r)));
        } else if roll == 4 && o.ext && r.chance(1, 2) {
            // reset to another family in the same directory
            let (spec2, hs2) = gen_spec(r, naming);
            let spec2 = spec2.replacen("SPEC ", "", 1);
            // make the family distinct through the discriminant
            let mut p: Vec<String> = spec2.split(' ').map(str::to_string).collect();
            p[1] = format!("s{}", hexs(&format!("fam{i}")));
            c.push(format!("RESET {} {}", p.join(" "), cfg_line(&rot, append, cap, symlink, hs2)));
            written_since_start = false;
        } else {
            let len = match r.below(8) {
                0 => 1,
                1 => 2,
                2 => n.max(2) - 1,
                3 => n.max(1),
                4 => n + 1,
                5 => n * 3 + 7,
                6 => cap.unwrap_or(10).min(300) + 1,
                _ => r.range(1, 30),
            };
            let fl = if o.faults && r.chance(1, 5) { r.pick(&fault_kinds).to_string() } else { "-".into() };
            c.push(format!("W {} {} {fl}", hex(&record(seq, len.max(1))), tick(&mut clock, r)));
            seq += 1;
            written_since_start = true;
            if o.faults { c.push("ERRS".into()); }
            if cap.is_none() && !is_async && r.chance(1, 3) {
                c.push("READ".into());
                if o.cleanup { c.push("SNAP".into()); }
                if o.exist { c.push(format!("EXIST {} _", r.pick_s(&["p", "pc", "pcr", "r", "c"]))); c.push("LINK".into()); }
            }
        }
    }
    if !is_async {
        c.push("FLUSH".into());
        c.push("READ".into());
        c.push("PARTS".into());
    }
    c.push("SHUT".into());
    c.push("READ".into());
    c.push("PARTS".into());
    if o.bg >= 3 { c.push("BGTRACE".into()); }
    if o.bg < 2 {
        // with a free-running cleanup thread the NAMES depend on the schedule (which files the
        // collision check still sees); the stream and its partition do not
        c.push("SNAP".into());
        c.push("LINK".into());
    }
    if o.exist {
        for sel in ["p", "pc", "pcr", "c", "r"] { c.push(format!("EXIST {sel} _")); }
        // a new logger on the same directory, asked before it has written anything
        c.push(format!("RESTART {}", cfg_line(&rot, true, cap, symlink, has_suffix)));
        for sel in ["p", "pcr"] { c.push(format!("EXIST {sel} _")); }
    }
    if o.faults { c.push("ERRS".into()); }
    c.push("END".into());
    c
}

fn gen_with(o: Opts, tier: &str, seed: u64, quick: u64, thorough: u64) -> Vec<Vec<String>> {
    let mut root = Rng::new(seed ^ u64::from_str_radix(&o.prop[1..], 16).unwrap());
    (0..n_cases(tier, quick, thorough)).map(|k| { let mut r = root.fork(); gen_hist(&o, &mut r, k, tier) }).collect()
}

const ALL: &[&str] = &["num", "numd", "ts", "tsd"];

pub fn gen_c08(tier: &str, seed: u64) -> Vec<Vec<String>> {
    let mut v = gen_with(Opts { prop: "C08", size: true, age: false, force_rot: true, restarts: 1, cleanup: false, faults: false, ext: false, modes: true, max_ops: 40, namings: ALL, foreign: false, exist: false, bg: 0 }, tier, seed, 500, 8000);
    // … and with a cleanup strategy whose steps can fail (the cleanup runs in the rotating thread):
    // the size accounting of the file mounted by a rotation must not depend on how the cleanup ends
    v.extend(gen_with(Opts { prop: "C08", size: true, age: false, force_rot: true, restarts: 0, cleanup: true, faults: true, ext: false, modes: false, max_ops: 40, namings: ALL, foreign: false, exist: false, bg: 0 }, tier, seed ^ 0xC08F, 150, 2000).into_iter().map(|mut c| { c[0] = c[0].replacen("C08 ", "C08 f", 1); c }));
    // … and with reopen_outputfile() between the records, the file still in place or moved away:
    // the accounting goes on with what the file at the path holds
    v.extend(gen_with(Opts { prop: "C18", size: true, age: false, force_rot: true, restarts: 0, cleanup: false, faults: false, ext: true, modes: false, max_ops: 40, namings: ALL, foreign: false, exist: false, bg: 0 }, tier, seed ^ 0xC08E, 150, 2000).into_iter().map(|mut c| { c[0] = c[0].replacen("C18 ", "C08 e", 1); c }));
    // … and with reset_flw onto the SAME family while records are still buffered: the size found at
    // start (append) is the size AFTER the old writer has flushed
    v.extend(gen_same_spec_reset("C08", tier, seed ^ 0xC085));
    v
}
pub fn gen_c09(tier: &str, seed: u64) -> Vec<Vec<String>> {
    let mut v = gen_c09_virtual(tier, seed);
    // age-or-size with BOTH parts active (the size part closes files inside a period, and at some
    // rotations both parts hold at once): the start time of every file is the one of ITS first record
    v.extend(gen_with(Opts { prop: "C01", size: true, age: true, force_rot: false, restarts: 1, cleanup: false, faults: false, ext: false, modes: false, max_ops: 40, namings: ALL, foreign: false, exist: false, bg: 0 }, tier, seed ^ 0xC09B, 200, 3000)
        .into_iter().map(|mut c| { c[0] = c[0].replacen("C01 ", "C09 x", 1); c }));
    // forced rotations between the records (LoggerHandle::trigger_rotation): the file they start
    // was started at THEIR time, also when several period boundaries have passed without a write
    v.extend(gen_with(Opts { prop: "C09", size: false, age: true, force_rot: true, restarts: 0, cleanup: false, faults: false, ext: false, modes: false, max_ops: 30, namings: ALL, foreign: false, exist: false, bg: 0 }, tier, seed ^ 0xC09F, 200, 3000)
        .into_iter().map(|mut c| { c[0] = c[0].replacen("C09 ", "C09 f", 1); c }));
    v.extend(gen_c09_realclock(tier, seed));
    v
}

/// C09 with the real clock and the real file-system times (see `realclock.rs`): every case is its
/// own harness process (a few seconds of sleeping each, all in parallel). Shapes: (a) a current
/// file written to over two seconds is rotated out by the next run (no append) — named after its
/// birth second; (b) age rotation + append + buffering: the file is born in second 0, its content
/// arrives in second 1 (shutdown), the next run starts in second 1 and must rotate at its first
/// write; (c) append restart, size rotation afterwards: the rotated file carries the birth second;
/// (d) age rotation within one run under every naming.
fn gen_c09_realclock(tier: &str, seed: u64) -> Vec<Vec<String>> {
    let mut root = Rng::new(seed ^ 0xC09E);
    let mut cases = Vec::new();
    const T0: u64 = 20250310120000;
    for k in 0..n_cases(tier, 8, 16) {
        let mut r = root.fork();
        let mut c = vec![format!("CASE flw C09 r{k}"), format!("NOTE realclock {T0}"), "SPEC 617070 _ s6c6f67 _ 0".to_string()];
        let mut seq = 0u64;
        let mut w = |c: &mut Vec<String>, r: &mut Rng, off: u64, len: Option<u64>| { let l = len.unwrap_or_else(|| r.range(4, 14)); c.push(format!("W {} {} -", hex(&record(seq, l)), T0 + off)); seq += 1; };
        match k % 4 {
            0 => {
                let rot = Some("1000;_;ts;never".to_string());
                c.push(format!("CFG {}", cfg_line(&rot, false, None, false, true)));
                w(&mut c, &mut r, 0, None);
                w(&mut c, &mut r, 1, None);
                let mut t = 2;
                if r.chance(1, 2) { w(&mut c, &mut r, 2, None); t = 3; }
                c.push(format!("RESTART {}", cfg_line(&rot, false, None, false, true)));
                w(&mut c, &mut r, t, None);
            }
            1 => {
                let naming = *r.pick(&["ts", "ts", "num"]);
                let rot = Some(format!("_;s;{naming};never"));
                c.push(format!("CFG {}", cfg_line(&rot, true, Some(8192), false, true)));
                w(&mut c, &mut r, 0, None);
                c.push(format!("AT {}", T0 + 1));
                c.push("SHUT".into());
                c.push(format!("RESTART {}", cfg_line(&rot, true, Some(8192), false, true)));
                w(&mut c, &mut r, 1, None);
                c.push("SHUT".into());
            }
            2 => {
                let rot = Some("30;_;ts;never".to_string());
                c.push(format!("CFG {}", cfg_line(&rot, true, None, false, true)));
                w(&mut c, &mut r, 0, Some(10));
                w(&mut c, &mut r, 1, Some(10));
                c.push(format!("RESTART {}", cfg_line(&rot, true, None, false, true)));
                w(&mut c, &mut r, 2, Some(15));
                w(&mut c, &mut r, 2, Some(10));
                w(&mut c, &mut r, 3, Some(10));
            }
            _ => {
                let naming = *r.pick(&["ts", "tsd", "num", "numd"]);
                let rot = Some(format!("_;s;{naming};never"));
                c.push(format!("CFG {}", cfg_line(&rot, false, None, false, true)));
                w(&mut c, &mut r, 0, None);
                w(&mut c, &mut r, 0, None);
                w(&mut c, &mut r, 1, None);
                w(&mut c, &mut r, 2, None);
            }
        }
        c.push(format!("STAMPS {T0}"));
        c.push("PARTS".into());
        c.push("READ".into());
        c.push("END".into());
        cases.push(c);
    }
    cases
}

fn gen_c09_virtual(tier: &str, seed: u64) -> Vec<Vec<String>> {
    gen_with(Opts { prop: "C09", size: false, age: true, force_rot: false, restarts: 1, cleanup: false, faults: false, ext: false, modes: false, max_ops: 40, namings: ALL, foreign: false, exist: false, bg: 0 }, tier, seed, 500, 8000)
}
pub fn gen_c06(tier: &str, seed: u64) -> Vec<Vec<String>> {
    let mut v = gen_with(Opts { prop: "C06", size: true, age: true, force_rot: true, restarts: 4, cleanup: false, faults: false, ext: false, modes: false, max_ops: 40, namings: ALL, foreign: false, exist: false, bg: 0 }, tier, seed, 500, 6000);
    // … and with failing file-system operations, also at the start of a run (the rename of the
    // earlier run's current file, the first open): a failed start must not cost earlier records
    v.extend(gen_with(Opts { prop: "C06", size: true, age: true, force_rot: true, restarts: 3, cleanup: false, faults: true, ext: false, modes: false, max_ops: 30, namings: ALL, foreign: false, exist: false, bg: 0 }, tier, seed ^ 0xC6F, 200, 3000).into_iter().map(|mut c| { c[0] = c[0].replacen("C06 ", "C06 f", 1); c }));
    v.extend(gen_c06_across_month_end(tier, seed));
    v.extend(gen_c06_same_second_runs(tier, seed));
    // … and with the cleanup strategies (incl. compression): what a restart finds may be only
    // compressed files, gaps in the numbering, restart siblings whose low end is gone
    v.extend(gen_with(Opts { prop: "C06", size: true, age: true, force_rot: true, restarts: 4, cleanup: true, faults: false, ext: false, modes: false, max_ops: 40, namings: ALL, foreign: false, exist: false, bg: 0 }, tier, seed ^ 0xC6C, 200, 3000).into_iter().map(|mut c| { c[0] = c[0].replacen("C06 ", "C06 c", 1); c }));
    v
}

/// C06: several short runs that all start within one second (timestamp namings: every start
/// meets files with the very stamp it would choose), with and without cleanup/compression at
/// start-up; no append for TimestampsDirect (known finding), free choice otherwise
fn gen_c06_same_second_runs(tier: &str, seed: u64) -> Vec<Vec<String>> {
    let mut root = Rng::new(seed ^ 0xC065);
    let mut cases = Vec::new();
    for k in 0..n_cases(tier, 60, 1500) {
        let mut r = root.fork();
        let naming = *r.pick(&["tsd", "tsd", "ts", "num", "numd"]);
        let (spec, has_suffix) = gen_spec(&mut r, naming);
        let spec = spec.rsplitn(2, ' ').nth(1).map(|s| format!("{s} 0")).unwrap();
        let cleanup = if has_suffix { *r.pick(&["never", "0,2", "0,5", "1,1", "2,0", "1,0"]) } else { *r.pick(&["never", "2,0", "1,0"]) };
        let rot = Some(format!("{};_;{naming};{cleanup}", r.pick(&[0u64, 5, 40])));
        let mut c = vec![format!("CASE flw C06 s{k}"), spec];
        c.push(format!("CFG {}", cfg_line(&rot, false, None, false, has_suffix)));
        let now = pack(*r.pick(&[1_709_251_140i64, 1_718_447_390, 1_735_689_590]) + r.below(5) as i64);
        let mut seq = 0u64;
        for run in 0..r.range(3, 7) {
            if run > 0 {
                c.push("SHUT".into());
                c.push("READ".into());
                c.push(format!("RESTART {}", cfg_line(&rot, (naming != "tsd" || lift_tsd()) && r.chance(1, 3), None, false, has_suffix)));
            }
            for _ in 0..r.range(1, 3) {
                c.push(format!("W {} {now} -", hex(&record(seq, r.range(2, 12)))));
                seq += 1;
            }
        }
        c.push("SHUT".into());
        c.push("READ".into());
        c.push("PARTS".into());
        c.push("SNAP".into());
        c.push("END".into());
        cases.push(c);
    }
    cases
}

/// C06, timestamp namings with every format incl. the day-first one: a run that starts at the
/// end of a month and goes on into the next one (so that the TEXT order of the file names is not
/// their TIME order where the format is day-first), then restarts with and without append.
/// Every operation has its own second (no `.restart-NNNN` files: see the known finding
/// `C06-tsd-append-after-restart-files`).
fn gen_c06_across_month_end(tier: &str, seed: u64) -> Vec<Vec<String>> {
    let mut root = Rng::new(seed ^ 0xC06D);
    let mut cases = Vec::new();
    for k in 0..n_cases(tier, 60, 1500) {
        let mut r = root.fork();
        let naming = *r.pick(&["tsd", "tsd", "ts"]);
        let (spec, has_suffix) = gen_spec(&mut r, naming);
        let fmt = *r.pick(&[3u64, 3, 0, 1, 2]);
        let spec = spec.rsplitn(2, ' ').nth(1).map(|s| format!("{s} {fmt}")).unwrap();
        let mut c = vec![format!("CASE flw C06 m{k}"), spec];
        let crit = *r.pick(&["0;_", "5;_", "16;_", "_;d", "_;h", "40;d"]);
        let rot = Some(format!("{crit};{naming};never"));
        let cap = *r.pick(&[None, None, Some(8u64), Some(8192)]);
        c.push(format!("CFG {}", cfg_line(&rot, false, cap, r.chance(1, 4), has_suffix)));
        // 2024-02-29, 2024-03-31, 2024-12-31, 2025-04-30: shortly before midnight
        let mut epoch = *r.pick(&[1_709_251_140i64, 1_711_929_540, 1_735_689_540, 1_746_057_540]) + r.below(30) as i64;
        let mut seq = 0u64;
        let mut writes = |c: &mut Vec<String>, r: &mut Rng, epoch: &mut i64, n: u64| {
            for _ in 0..n {
                *epoch += 1 + *r.pick(&[0i64, 0, 1, 7, 45]);
                c.push(format!("W {} {} -", hex(&record(seq, r.range(2, 24))), pack(*epoch)));
                seq += 1;
            }
        };
        { let n = r.range(1, 5); writes(&mut c, &mut r, &mut epoch, n); }
        epoch += *r.pick(&[60i64, 120, 86_400, 3 * 86_400]);           // into the next month
        { let n = r.range(1, 6); writes(&mut c, &mut r, &mut epoch, n); }
        for _ in 0..r.range(1, 3) {
            c.push("SHUT".into());
            c.push("READ".into());
            epoch += 1 + *r.pick(&[0i64, 5, 3_600, 86_400, 40 * 86_400]);
            c.push(format!("RESTART {}", cfg_line(&rot, r.chance(2, 3), cap, false, has_suffix)));
            { let n = r.range(1, 5); writes(&mut c, &mut r, &mut epoch, n); }
        }
        c.push("SHUT".into());
        c.push("READ".into());
        c.push("PARTS".into());
        c.push("SNAP".into());
        c.push("END".into());
        cases.push(c);
    }
    cases
}
/// C01 where a due rotation CANNOT succeed although nothing is wrong with the file system: the
/// index space is exhausted (a file with index 4294967294 exists at start), or the name of the
/// rotated file would be longer than the file system allows (a very long basename whose current
/// file name is still legal). The rotation is reported and logging continues in the file that is
/// open; nothing is lost or reordered. Judged by the stream oracle alone (`CASE robust`: the model
/// has unbounded indices and names).
pub fn gen_c01_unrotatable(tier: &str, seed: u64) -> Vec<Vec<String>> {
    let mut root = Rng::new(seed ^ 0xC01BAD);
    let mut cases = Vec::new();
    for k in 0..n_cases(tier, 40, 400) {
        let mut r = root.fork();
        let mut c = vec![format!("CASE robust C01 x{k}"), "NOTE unrotatable".to_string()];
        let n = *r.pick(&[0u64, 5, 40]);
        let cap = *r.pick(&[None, Some(16u64), Some(64), Some(8192)]);
        if r.chance(1, 2) {
            let naming = *r.pick(&["num", "numd"]);
            c.push("SPEC 617070 _ s6c6f67 _ 0".into());
            c.push(format!("PREFILE {} -", hexs("app_r4294967294.log")));
            c.push(format!("CFG {}", cfg_line(&Some(format!("{n};_;{naming};never")), false, cap, false, true)));
        } else {
            let naming = *r.pick(&["ts", "ts", "num"]);
            // `<basename>_rCURRENT.log` has at most 255 bytes, the rotated name more
            let len = if naming == "ts" { r.range(231, 242) } else { 242 };
            let base: String = (0..len).map(|i| (b'a' + (i % 26) as u8) as char).collect();
            c.push(format!("SPEC {} _ s6c6f67 _ 0", hexs(&base)));
            if naming == "num" { continue; }
            c.push(format!("CFG {}", cfg_line(&Some(format!("{n};_;{naming};never")), false, cap, false, true)));
        }
        let mut clock = Clock::new(&mut r);
        for seq in 0..r.range(4, 40) {
            clock.epoch += 1;
            c.push(format!("W {} {} -", hex(&record(seq, r.range(1, 30))), clock.tick(&mut r)));
            match r.below(8) { 0 => { c.push("FLUSH".into()); c.push("CHECKSTREAM".into()); } 1 => c.push(format!("ROT {} -", clock.tick(&mut r))), _ => {} }
        }
        c.push("SHUT".into());
        c.push("CHECKSTREAM".into());
        c.push("END".into());
        cases.push(c);
    }
    cases
}
pub fn gen_c07(tier: &str, seed: u64) -> Vec<Vec<String>> {
    let mut v = gen_c07_sync(tier, seed);
    v.extend(gen_c07_big(tier, seed));
    v.extend(gen_c07_slow_thread(tier, seed));
    // the same histories with the cleanup in the background thread: after shutdown() the
    // directory must be what the synchronous cleanup leaves
    v.extend(gen_with(Opts { prop: "C07", size: true, age: true, force_rot: true, restarts: 1, cleanup: true, faults: false, ext: false, modes: false, max_ops: 40, namings: ALL, foreign: false, exist: false, bg: 1 }, tier, seed ^ 0xB6, 150, 3000));
    v.extend(gen_with(Opts { prop: "C07", size: true, age: true, force_rot: false, restarts: 1, cleanup: true, faults: false, ext: false, modes: false, max_ops: 40, namings: ALL, foreign: false, exist: false, bg: 2 }, tier, seed ^ 0xB7, 100, 3000));
    v.extend(gen_with(Opts { prop: "C07", size: true, age: true, force_rot: false, restarts: 1, cleanup: true, faults: false, ext: false, modes: false, max_ops: 40, namings: ALL, foreign: false, exist: false, bg: 3 }, tier, seed ^ 0xB8, 60, 2000));
    v.extend(gen_with(Opts { prop: "C07", size: true, age: true, force_rot: false, restarts: 1, cleanup: true, faults: false, ext: false, modes: false, max_ops: 40, namings: ALL, foreign: false, exist: false, bg: 4 }, tier, seed ^ 0xB9, 60, 2000));
    // … without restarts: what the thread does is observed step by step and replayed on the `Bg` model
    for (bg, x) in [(3u8, 0xBAu64), (4, 0xBB)] {
        v.extend(gen_with(Opts { prop: "C07", size: true, age: true, force_rot: false, restarts: 0, cleanup: true, faults: false, ext: false, modes: false, max_ops: 40, namings: &["num", "ts", "num", "ts", "numd"], foreign: false, exist: false, bg }, tier, seed ^ x, 80, 2000)
            .into_iter().map(|mut c| { c[0] = c[0].replacen("C07 b", "C07 t", 1); c }));
    }
    v
}
/// C07 with a SLOW cleanup thread and every write mode, incl. the asynchronous ones built directly
/// with `FileLogWriter::builder` (`WriteMode::Async` keeps the cleanup thread, `AsyncWith` cleans up
/// in the writer thread): the limits and the tail hold the moment shutdown() has returned
fn gen_c07_slow_thread(tier: &str, seed: u64) -> Vec<Vec<String>> {
    let mut root = Rng::new(seed ^ 0xC07515);
    let mut cases = Vec::new();
    for k in 0..n_cases(tier, 60, 600) {
        let mut r = root.fork();
        let naming = *r.pick(ALL);
        let (spec, has_suffix) = gen_spec(&mut r, naming);
        let mut c = vec![format!("CASE flw C07 s{k}"), spec];
        let (mode, cap, is_async) = if r.chance(1, 2) { (r.pick_s(&["asyncdef", "asyncdef", "async:3:200", "async:50:10:3"]).to_string(), None, true) } else { pick_mode(&mut r, &[16, 100, 8192], &[1, 3, 50], &[0, 10, 200]) };
        c.push(format!("MODE {mode}"));
        c.push("BGCLEAN 5".into());
        let (kk, mm) = if has_suffix { (r.below(3), r.below(3)) } else { (r.range(1, 3), 0) };
        let (kk, mm) = if kk + mm == 0 { (1, 0) } else { (kk, mm) };
        let n = *r.pick(&[0u64, 5, 16]);
        c.push(format!("CFG {}", cfg_line(&Some(format!("{n};_;{naming};{kk},{mm}")), false, cap, false, has_suffix)));
        let mut clock = Clock::new(&mut r);
        for seq in 0..r.range(6, 24) {
            let now = if is_async { clock.now() } else { clock.epoch += 1; clock.tick(&mut r) };
            c.push(format!("W {} {now} -", hex(&record(seq, r.range(2, 24)))));
        }
        c.push("SHUT".into());
        c.push("READ".into());
        c.push("END".into());
        cases.push(c);
    }
    cases
}
/// C07: rotated files of a few hundred kB with poorly compressible content (the compressed form
/// is far larger than any internal buffer of the encoder): byte-exact round trip of the `.gz`
fn gen_c07_big(tier: &str, seed: u64) -> Vec<Vec<String>> {
    let mut root = Rng::new(seed ^ 0xC07B16);
    let mut cases = Vec::new();
    for k in 0..n_cases(tier, 3, 24) {
        let mut r = root.fork();
        let naming = *r.pick(&["num", "numd", "ts"]);
        let cleanup = *r.pick(&["0,3", "1,2", "0,1"]);
        let mut c = vec![format!("CASE flw C07 big{k}"), "SPEC 617070 _ s6c6f67 _ 0".to_string()];
        c.push(format!("CFG {}", cfg_line(&Some(format!("200000;_;{naming};{cleanup}")), false, *r.pick(&[None, Some(8192u64)]), false, true)));
        let mut clock = Clock::new(&mut r);
        let mut x = r.next() | 1;
        for seq in 0..r.range(16, 30) {
            let len = r.range(20_000, 45_000) as usize;
            let mut line = format!("{seq}:").into_bytes();
            while line.len() + 1 < len {
                x ^= x << 13; x ^= x >> 7; x ^= x << 17;
                // printable ASCII, ~6.5 bits per byte: compresses badly
                line.extend(x.to_le_bytes().iter().map(|b| 0x21 + b % 94));
            }
            line.truncate(len - 1);
            line.push(b'\n');
            clock.epoch += 1;
            c.push(format!("W {} {} -", hex(&line), clock.tick(&mut r)));
        }
        c.push("SHUT".into());
        c.push("READ".into());
        c.push("PARTS".into());
        c.push("SNAP".into());
        c.push("END".into());
        cases.push(c);
    }
    cases
}

fn gen_c07_sync(tier: &str, seed: u64) -> Vec<Vec<String>> {
    gen_with(Opts { prop: "C07", size: true, age: true, force_rot: true, restarts: 2, cleanup: true, faults: false, ext: false, modes: false, max_ops: 40, namings: ALL, foreign: false, exist: false, bg: 0 }, tier, seed, 500, 6000)
}
/// raw byte chunks through `ArcFileLogWriter: io::Write` under every write mode
fn gen_c15_chunks(tier: &str, seed: u64) -> Vec<Vec<String>> {
    let mut root = Rng::new(seed ^ 0xC15C);
    let mut cases = Vec::new();
    for k in 0..n_cases(tier, 200, 3000) {
        let mut r = root.fork();
        let mut c = vec![format!("CASE flw C15 c{k}")];
        let naming = *r.pick(&NAMINGS);
        let (spec, has_suffix) = gen_spec(&mut r, naming);
        c.push(spec);
        let n: u64 = *r.pick(&[0, 7, 64]);
        let rot = if r.chance(1, 2) { None } else { Some(format!("{n};_;{naming};never")) };
        let (mode, cap, is_async) = pick_mode(&mut r, &[1, 7, 64, 8192], &[1, 2, 50], &[0, 1, 10, 200]);
        c.push(format!("MODE {mode}"));
        c.push(format!("CFG {}", cfg_line(&rot, false, cap, false, has_suffix)));
        let now = Clock::new(&mut r).now();
        for i in 0..r.range(2, 30) {
            let chunk: Vec<u8> = match r.below(7) {
                0 => vec![],
                1 => vec![r.below(256) as u8],                        // single bytes of every value
                2 => b"no line ending".to_vec(),
                3 => (0..cap.unwrap_or(100).min(500) + 5).map(|j| (j % 251) as u8).collect(), // larger than the buffer
                4 => vec![b'\n'],
                _ => (0..r.range(1, 40)).map(|_| r.below(256) as u8).collect(),
            };
            // in async mode the one-byte chunks "F" and "S" are the in-band control messages
            // (known finding C15-async-control-chunks, directed corpus case)
            let chunk = if is_async && (chunk == b"F" || chunk == b"S") { vec![b'f'] } else { chunk };
            c.push(format!("WRAW {} {now} -", hex(&chunk)));
            if r.chance(1, 6) { c.push("FLUSH".into()); if !is_async { c.push("READ".into()); } }
            let _ = i;
        }
        c.push("SHUT".into());
        c.push("READ".into());
        c.push("PARTS".into());
        c.push("END".into());
        cases.push(c);
    }
    cases
}

pub fn gen_c15(tier: &str, seed: u64) -> Vec<Vec<String>> {
    let mut v = gen_c15_chunks(tier, seed);
    v.extend(gen_c15_records(tier, seed));
    v.extend(gen_same_spec_reset("C15", tier, seed));
    v
}

fn gen_c15_records(tier: &str, seed: u64) -> Vec<Vec<String>> {
    gen_with(Opts { prop: "C15", size: true, age: false, force_rot: true, restarts: 0, cleanup: false, faults: false, ext: false, modes: true, max_ops: 40, namings: ALL, foreign: false, exist: false, bg: 0 }, tier, seed, 500, 6000)
}
/// C15: `reset_flw` onto the SAME file / family in every write mode — what is still in the old
/// writer's buffer must be in the file before the new writer looks at it (size found when
/// appending, truncation otherwise); the files after shutdown are those of the direct mode
pub fn gen_same_spec_reset(prop: &str, tier: &str, seed: u64) -> Vec<Vec<String>> {
    let mut root = Rng::new(seed ^ 0xC15A);
    let mut cases = Vec::new();
    for k in 0..n_cases(tier, 120, 1500) {
        let mut r = root.fork();
        let naming = *r.pick(ALL);
        let (spec, has_suffix) = gen_spec(&mut r, naming);
        let spec_args = spec.replacen("SPEC ", "", 1);
        // (asynchronous modes: `reset` takes the state lock directly and is not ordered with the records
        //  still in the channel — which state writes them is a race, like `trigger_rotation`, 11.4)
        let (mode, cap, is_async) = loop { let m = pick_mode(&mut r, &[8, 64, 1000, 8192], &[1, 3, 50], &[0, 10, 200]); if !m.2 { break m; } };
        let n = *r.pick(&[5u64, 40, 90]);
        let rot = if r.chance(1, 4) { None } else { Some(format!("{n};_;{naming};never")) };
        let append = r.chance(2, 3);
        let mut c = vec![format!("CASE flw {prop} s{k}"), spec.clone()];
        c.push(format!("MODE {mode}"));
        c.push(format!("CFG {}", cfg_line(&rot, append, cap, false, has_suffix)));
        let mut clock = Clock::new(&mut r);
        let mut seq = 0u64;
        for _ in 0..r.range(1, 3) {
            for _ in 0..r.range(1, 6) {
                if !is_async { clock.epoch += 1; }
                let now = if is_async { clock.now() } else { clock.tick(&mut r) };
                c.push(format!("W {} {now} -", hex(&record(seq, r.range(2, 30)))));
                seq += 1;
            }
            if is_async { c.push("FLUSH".into()); }
            c.push(format!("RESET {spec_args} {}", cfg_line(&rot, append, cap, false, has_suffix)));
        }
        for _ in 0..r.range(1, 6) {
            if !is_async { clock.epoch += 1; }
            let now = if is_async { clock.now() } else { clock.tick(&mut r) };
            c.push(format!("W {} {now} -", hex(&record(seq, r.range(2, 30)))));
            seq += 1;
        }
        c.push("SHUT".into());
        c.push("SNAP".into());
        c.push("END".into());
        cases.push(c);
    }
    cases
}
/// C18: `reset_flw` with the SAME FileSpec and other rotation settings (rotation switched on or
/// off): the records after the reset go to the newly specified file / family
fn gen_c18_same_spec_reset(tier: &str, seed: u64) -> Vec<Vec<String>> {
    let mut root = Rng::new(seed ^ 0xC18A);
    let mut cases = Vec::new();
    for k in 0..n_cases(tier, 40, 600) {
        let mut r = root.fork();
        let naming = *r.pick(ALL);
        let (spec, has_suffix) = gen_spec(&mut r, naming);
        let spec_args = spec.replacen("SPEC ", "", 1);
        let cap = *r.pick(&[None, Some(8u64), Some(8192)]);
        let rot = Some(format!("{};_;{naming};never", r.pick(&[0u64, 5, 40])));
        let (first, second) = if r.chance(1, 2) { (None, rot) } else { (rot, None) };
        let mut c = vec![format!("CASE flw C18 r{k}"), spec.clone()];
        c.push(format!("CFG {}", cfg_line(&first, false, cap, false, has_suffix)));
        let mut clock = Clock::new(&mut r);
        let mut seq = 0u64;
        for _ in 0..r.range(1, 6) { clock.epoch += 1; c.push(format!("W {} {} -", hex(&record(seq, r.range(2, 20))), clock.tick(&mut r))); seq += 1; }
        c.push(format!("RESET {spec_args} {}", cfg_line(&second, false, cap, false, has_suffix)));
        for _ in 0..r.range(1, 6) { clock.epoch += 1; c.push(format!("W {} {} -", hex(&record(seq, r.range(2, 20))), clock.tick(&mut r))); seq += 1; }
        c.push("SHUT".into());
        c.push("SNAP".into());
        c.push("END".into());
        cases.push(c);
    }
    cases
}
pub fn gen_c18(tier: &str, seed: u64) -> Vec<Vec<String>> {
    let mut v = gen_c18_same_spec_reset(tier, seed);
    v.extend(gen_c18_main(tier, seed));
    v.extend(gen_c18_via_logger(tier, seed));
    v.extend(gen_via_handle("C18", tier, seed));
    v
}

/// C18 through the public entry point: `LoggerHandle::reopen_output()` (and `trigger_rotation()`)
/// of a logger that writes to a file, or to a file AND a second writer (`log_to_file_and_writer`:
/// the fan-out layer has its own arm for "both"), with and without rotation; the current file is
/// renamed or removed from outside, sometimes with records in between
fn gen_c18_via_logger(tier: &str, seed: u64) -> Vec<Vec<String>> {
    let mut root = Rng::new(seed ^ 0xC18E);
    let mut cases = Vec::new();
    for k in 0..n_cases(tier, 120, 2000) {
        let mut r = root.fork();
        let mut c = vec![format!("CASE flw C18 l{k}")];
        let naming = *r.pick(&NAMINGS);
        let (spec, has_suffix) = gen_spec(&mut r, naming);
        c.push(spec);
        c.push(r.pick_s(&["VIA filewriter", "VIA logger", "VIA logger", "VIA addwriter", "VIA addwriter-failing", "VIA addwriter-failing"]).to_string());
        let n: u64 = *r.pick(&[5, 40, 300]);
        let rot = if r.chance(1, 2) { None } else { Some(format!("{n};_;{naming};never")) };
        let cap: Option<u64> = if r.chance(1, 3) { Some(*r.pick(&[16u64, 100, 8192])) } else { None };
        c.push(format!("MODE {}", cap.map_or("direct".to_string(), |cc| format!("buf:{cc}"))));
        c.push(format!("CFG {}", cfg_line(&rot, false, cap, false, has_suffix)));
        let mut clock = Clock::new(&mut r);
        let mut seq = 0;
        let mut lw = |c: &mut Vec<String>, r: &mut Rng, clock: &mut Clock| { clock.epoch += 1; c.push(format!("LW {} {}", hex(&record(seq, r.range(2, 30))), clock.tick(r))); seq += 1; };
        lw(&mut c, &mut r, &mut clock);
        for _ in 0..r.range(3, 14) {
            match r.below(8) {
                0 | 1 => {
                    c.push(if r.chance(3, 4) { "EXTREN".to_string() } else { "EXTRM".to_string() });
                    if r.chance(1, 4) { lw(&mut c, &mut r, &mut clock); }
                    clock.epoch += 1;
                    if r.chance(1, 3) { c.push(format!("EXTTOUCH {}", clock.now())); }
                    c.push(format!("LREOPEN {}", clock.tick(&mut r)));
                    lw(&mut c, &mut r, &mut clock);
                    c.push("LFLUSH".into());
                    c.push("READ".into());
                }
                2 => { clock.epoch += 1; c.push(format!("LREOPEN {}", clock.tick(&mut r))); }
                3 if rot.is_some() => { clock.epoch += 1; c.push(format!("LROT {}", clock.tick(&mut r))); }
                4 => { c.push("LFLUSH".into()); c.push("READ".into()); c.push("PARTS".into()); }
                _ => lw(&mut c, &mut r, &mut clock),
            }
        }
        c.push("LSHUT".into());
        c.push("READ".into());
        c.push("PARTS".into());
        c.push("SNAP".into());
        c.push("END".into());
        cases.push(c);
    }
    cases
}
/// C16 / C18 through the public entry points of the `LoggerHandle`: `existing_log_files`,
/// `reset_flw`, `trigger_rotation`, `flush` (handle and log facade) of a real `Logger` in every
/// write mode (asynchronous modes: listings only after `shutdown()`, no reset — see 11.4)
pub fn gen_via_handle(prop: &str, tier: &str, seed: u64) -> Vec<Vec<String>> {
    let mut root = Rng::new(seed ^ 0x4A7D1E);
    let mut cases = Vec::new();
    for k in 0..n_cases(tier, 100, 1500) {
        let mut r = root.fork();
        let mut c = vec![format!("CASE flw {prop} h{k}")];
        let naming = *r.pick(&NAMINGS);
        let (spec, has_suffix) = gen_spec(&mut r, naming);
        c.push(spec);
        c.push(if r.chance(1, 3) { "VIA filewriter".to_string() } else { "VIA logger".to_string() });
        c.push(format!("NOTE builder-order {}", r.below(4)));
        let n: u64 = *r.pick(&[5, 40, 300]);
        let cleanup = if r.chance(1, 3) && has_suffix { format!("{},{}", r.range(1, 3), r.below(3)) } else { "never".to_string() };
        let rot = if r.chance(1, 5) { None } else { Some(format!("{n};_;{naming};{cleanup}")) };
        let (mode, cap, is_async) = pick_mode(&mut r, &[16, 100, 8192], &[1, 3, 50], &[0, 10, 200]);
        c.push(format!("MODE {mode}"));
        c.push(format!("CFG {}", cfg_line(&rot, false, cap, false, has_suffix)));
        let mut clock = Clock::new(&mut r);
        let mut seq = 0;
        let mut lw = |c: &mut Vec<String>, r: &mut Rng, clock: &mut Clock| {
            let now = if is_async { clock.now() } else { clock.epoch += 1; clock.tick(r) };
            c.push(format!("LW {} {now}", hex(&record(seq, r.range(2, 30)))));
            seq += 1;
        };
        lw(&mut c, &mut r, &mut clock);
        let sels = ["p", "pc", "pcr", "r", "c"];
        let mut fam = 0;
        for _ in 0..r.range(3, 16) {
            match r.below(10) {
                0 if !is_async => { c.push(format!("EXIST {} _", r.pick_s(&sels))); }
                1 if !is_async && rot.is_some() => { clock.epoch += 1; c.push(format!("LROT {}", clock.tick(&mut r))); }
                2 => { c.push("LFLUSH".into()); if !is_async { c.push("READ".into()); c.push("PARTS".into()); } }
                3 if !is_async && r.chance(1, 2) => {
                    // reset to another family in the same directory
                    let (spec2, hs2) = gen_spec(&mut r, naming);
                    let spec2 = spec2.replacen("SPEC ", "", 1);
                    let mut p: Vec<String> = spec2.split(' ').map(str::to_string).collect();
                    p[1] = format!("s{}", hexs(&format!("fam{fam}")));
                    fam += 1;
                    let cl2 = if hs2 { cleanup.clone() } else { "never".to_string() };
                    let rot2 = rot.as_ref().map(|_| format!("{n};_;{naming};{cl2}"));
                    c.push(format!("RESET {} {}", p.join(" "), cfg_line(&rot2, false, cap, false, hs2)));
                    lw(&mut c, &mut r, &mut clock);
                }
                _ => lw(&mut c, &mut r, &mut clock),
            }
        }
        c.push("LSHUT".into());
        c.push("READ".into());
        c.push("PARTS".into());
        c.push("SNAP".into());
        c.push("HASSTART".into());
        for sel in sels { c.push(format!("EXIST {sel} _")); }
        c.push("END".into());
        cases.push(c);
    }
    cases
}
fn gen_c18_main(tier: &str, seed: u64) -> Vec<Vec<String>> {
    gen_with(Opts { prop: "C18", size: true, age: false, force_rot: true, restarts: 0, cleanup: false, faults: false, ext: true, modes: false, max_ops: 40, namings: ALL, foreign: false, exist: false, bg: 0 }, tier, seed, 500, 6000)
}
pub fn gen_c19(tier: &str, seed: u64) -> Vec<Vec<String>> {
    gen_with(Opts { prop: "C19", size: true, age: true, force_rot: true, restarts: 0, cleanup: true, faults: true, ext: false, modes: false, max_ops: 40, namings: ALL, foreign: false, exist: false, bg: 0 }, tier, seed, 500, 6000)
}

pub fn gen_c14(tier: &str, seed: u64) -> Vec<Vec<String>> {
    let mut v = gen_with(Opts { prop: "C14", size: true, age: true, force_rot: true, restarts: 2, cleanup: true, faults: false, ext: false, modes: false, max_ops: 40, namings: ALL, foreign: true, exist: false, bg: 0 }, tier, seed, 400, 5000);
    v.extend(crate::props::names::gen_names_cases("C14", tier, seed));
    v
}
pub fn gen_c16(tier: &str, seed: u64) -> Vec<Vec<String>> {
    let mut v = gen_with(Opts { prop: "C16", size: true, age: true, force_rot: true, restarts: 2, cleanup: true, faults: false, ext: false, modes: false, max_ops: 30, namings: ALL, foreign: false, exist: true, bg: 0 }, tier, seed, 400, 5000);
    v.extend(crate::props::names::gen_names_cases("C16", tier, seed));
    v.extend(gen_via_handle("C16", tier, seed ^ 0x16));
    v
}

/// C04: flush / shutdown / handle drop through a real `Logger` and its `LoggerHandle`
pub fn gen_c04(tier: &str, seed: u64) -> Vec<Vec<String>> {
    let mut root = Rng::new(seed ^ 0xC04);
    let mut cases = Vec::new();
    for k in 0..n_cases(tier, 300, 5000) {
        let mut r = root.fork();
        let mut c = vec![format!("CASE flw C04 {k}")];
        let naming = *r.pick(&NAMINGS);
        let (spec, has_suffix) = gen_spec(&mut r, naming);
        c.push(spec);
        // the file writer as the logger's primary output, or as an additional writer (`{flw}`)
        // (… or as the file part of `log_to_file_and_writer`, next to a second, buffering writer)
        c.push(match r.below(8) { 0 | 1 => "VIA addwriter".to_string(), 2 | 3 => "VIA filewriter".to_string(), _ => "VIA logger".to_string() });
        c.push(format!("NOTE builder-order {}", r.below(4)));
        let n: u64 = *r.pick(&[5, 40, 300]);
        let rot = if r.chance(1, 3) { None } else { Some(format!("{n};_;{naming};never")) };
        let (mode, cap, is_async) = pick_mode(&mut r, &[16, 100, 8192], &[1, 3, 50], &[0, 10, 200]);
        c.push(format!("MODE {mode}"));
        c.push(format!("CFG {}", cfg_line(&rot, false, cap, false, has_suffix)));
        let mut clock = Clock::new(&mut r);
        let nops = r.range(2, if tier == "thorough" { 80 } else { 30 });
        let mut seq = 0;
        let mut clones = 0;
        for _ in 0..nops {
            match r.below(14) {
                0 if !is_async => { c.push("LFLUSH".into()); c.push("READ".into()); }
                0 => { c.push("LFLUSH".into()); }
                1 => { c.push("LCLONE".into()); clones += 1; }
                // dropping a clone in async mode stops the writer thread (known finding, directed corpus case)
                2 if clones > 0 && !is_async => { c.push("LDROPCLONE".into()); clones -= 1; c.push("READ".into()); }
                _ => {
                    // volumes above and below the buffer
                    let len = match r.below(5) { 0 => 1, 1 => cap.unwrap_or(50).min(400) + 3, 2 => n + 1, _ => r.range(2, 60) };
                    let now = if is_async { clock.now() } else { clock.tick(&mut r) };
                    c.push(format!("LW {} {now}", hex(&record(seq, len))));
                    seq += 1;
                    if cap.is_none() && !is_async && r.chance(1, 4) { c.push("READ".into()); }
                }
            }
        }
        // the point at which the logger ends: shutdown() or drop of the last handle; read immediately
        // (a large buffer, so that what a skipped flush leaves behind is not written out by the next record)
        if !is_async && cap == Some(8192) && (rot.is_none() || n == 300) && r.chance(1, 2) {
            // ends with flush() under concurrent logging (nothing is compared afterwards: the other
            // threads' records are not part of the history)
            c.push("LFLUSHC".into());
            c.push("END".into());
            cases.push(c);
            continue;
        }
        if !is_async && r.chance(1, 4) {
            // shutdown() is not the end (synchronous modes: the writer stays usable): records logged
            // after it must be in the output once the last handle has been dropped
            c.push("LSHUT".into());
            c.push("READ".into());
            for _ in 0..r.range(1, 3) {
                c.push(format!("LW {} {}", hex(&record(seq, r.range(2, 40))), clock.tick(&mut r)));
                seq += 1;
            }
            c.push("LDROPALL".into());
            c.push("READ".into());
            c.push("PARTS".into());
            c.push("END".into());
            cases.push(c);
            continue;
        }
        c.push(match r.below(4) { 0 | 1 => "LDROPALL".into(), 2 => "LSHUT".into(), _ => "LSHUT2".to_string() });
        c.push("READ".into());
        c.push("PARTS".into());
        c.push("END".into());
        cases.push(c);
    }
    cases
}

/// C11: histories in direct mode; every (point, occurrence) of one operation becomes a kill
pub fn gen_c11(tier: &str, seed: u64) -> Vec<Vec<String>> {
    let mut root = Rng::new(seed ^ 0xC11);
    let mut cases = Vec::new();
    let nhist = n_cases(tier, 6, 60);
    let points = ["write.before", "write.after", "open.before", "open.after", "rename.before", "rename.after", "rot.infix_chosen", "rot.opened", "rot.mounted",
        "cleanup.remove.before", "cleanup.remove.after", "compress.create.before", "compress.created", "compress.copied", "compress.finished", "compress.removed", "symlink.removed"];
    let mut k = 0;
    for hno in 0..nhist {
        let mut r = root.fork();
        let naming = NAMINGS[(hno % 4) as usize];
        let (spec, has_suffix) = gen_spec(&mut r, naming);
        let n: u64 = *r.pick(&[0, 5, 16]);
        let cleanup = match hno % 3 { 0 => "never".to_string(), 1 => "1,1".to_string(), _ => format!("{},{}", r.below(3), r.below(2)) };
        let cleanup = if !has_suffix && cleanup != "never" { "1,0".to_string() } else { cleanup };
        let symlink = r.chance(1, 3);
        let rot = Some(format!("{n};_;{naming};{cleanup}"));
        let cfg0 = format!("CFG {}", cfg_line(&rot, false, None, symlink, has_suffix));
        let mut clock = Clock::new(&mut r);
        // the common prefix of the history
        let mut prefix: Vec<String> = Vec::new();
        let mut seq = 0;
        for _ in 0..r.range(2, 8) {
            prefix.push(format!("W {} {} -", hex(&record(seq, r.range(1, 24))), clock.tick(&mut r)));
            seq += 1;
        }
        // (1) the points of the next write, observed and compared with the model's trace
        let victim = hex(&record(seq, r.range(2, 24)));
        let vnow = clock.tick(&mut r);
        {
            let mut c = vec![format!("CASE flw C11 {k}"), spec.clone(), cfg0.clone()];
            k += 1;
            c.extend(prefix.iter().cloned());
            c.push(format!("WP {victim} {vnow}"));
            c.push(format!("RP {vnow}"));
            c.push("SNAP".into());
            c.push("END".into());
            cases.push(c);
        }
        // (2) one case per (point, occurrence) of the victim write and of a forced rotation
        for (pi, p) in points.iter().enumerate() {
            for occ in 0..3u64 {
                if tier != "thorough" && occ > 0 && !(p.starts_with("cleanup") || p.starts_with("compress")) { continue; }
                for forced in [false, true] {
                    if forced && (p.starts_with("write") || (tier != "thorough" && (pi + hno as usize) % 2 == 0)) { continue; }
                    let mut c = vec![format!("CASE flw C11 {k}"), spec.clone()];
                    if (k + occ) % 4 == 1 { c.push("MODE capture".into()); }
                    c.push(cfg0.clone());
                    k += 1;
                    c.extend(prefix.iter().cloned());
                    if forced { c.push(format!("CROT {vnow} {p} {occ}")); } else { c.push(format!("CW {victim} {vnow} {p} {occ}")); }
                    c.push("SNAP".into());
                    c.push("LINK".into());
                    // a newly started logger on the same directory
                    // (TimestampsDirect + append onto `.restart-NNNN` siblings is the known finding
                    //  C06-tsd-append-after-restart-files: kept out of the random stream)
                    let append = r.chance(1, 2) && (naming != "tsd" || lift_tsd());
                    let mut cl2 = Clock { epoch: clock.epoch + *r.pick(&[0i64, 1, 70]), small: false };
                    c.push(format!("RESTART {}", cfg_line(&rot, append, None, symlink, has_suffix)));
                    let mut s2 = seq + 1;
                    for _ in 0..r.range(1, 5) {
                        c.push(format!("W {} {} -", hex(&record(s2, r.range(1, 24))), cl2.tick(&mut r)));
                        s2 += 1;
                    }
                    c.push("ERRS".into());
                    c.push("READ".into());
                    c.push("SNAP".into());
                    c.push("LINK".into());
                    c.push("END".into());
                    cases.push(c);
                }
            }
        }
        // (3) a backlog for the cleanup: an earlier run without cleanup leaves several rotated files;
        //     the next run's first cleanup pass has several files to compress/remove and is killed
        //     in between (newer files already compressed, older ones still plain); the logger
        //     started after that goes on rotating
        for backlog_cleanup in ["0,3", "1,2"] {
            if !has_suffix { continue; }
            let cfg_never = format!("CFG {}", cfg_line(&Some(format!("0;_;{naming};never")), false, None, symlink, has_suffix));
            let backlog_rot = Some(format!("0;_;{naming};{backlog_cleanup}"));
            let mut pre: Vec<String> = Vec::new();
            let mut cl = Clock::new(&mut r);
            let mut sq = 0u64;
            for _ in 0..r.range(4, 7) {
                cl.epoch += 1;
                pre.push(format!("W {} {} -", hex(&record(sq, r.range(2, 16))), cl.tick(&mut r)));
                sq += 1;
            }
            pre.push("SHUT".into());
            cl.epoch += 2;
            pre.push(format!("RESTART {}", cfg_line(&backlog_rot, r.chance(1, 2) && (naming != "tsd" || lift_tsd()), None, symlink, has_suffix)));
            let victim = hex(&record(sq, r.range(2, 16)));
            let vnow = cl.tick(&mut r);
            for p in points.iter().filter(|p| p.starts_with("compress") || p.starts_with("cleanup")) {
                for occ in 0..3u64 {
                    if tier != "thorough" && (occ + hno) % 2 == 1 { continue; }
                    let mut c = vec![format!("CASE flw C11 {k}"), spec.clone(), cfg_never.clone()];
                    k += 1;
                    c.extend(pre.iter().cloned());
                    c.push(format!("CW {victim} {vnow} {p} {occ}"));
                    c.push("SNAP".into());
                    let mut cl2 = Clock { epoch: cl.epoch + *r.pick(&[1i64, 2, 70]), small: false };
                    c.push(format!("RESTART {}", cfg_line(&backlog_rot, r.chance(1, 2) && (naming != "tsd" || lift_tsd()), None, symlink, has_suffix)));
                    let mut s2 = sq + 1;
                    for _ in 0..r.range(3, 7) {
                        cl2.epoch += 1;
                        c.push(format!("W {} {} -", hex(&record(s2, r.range(2, 16))), cl2.tick(&mut r)));
                        s2 += 1;
                    }
                    c.push("ERRS".into());
                    c.push("READ".into());
                    c.push("SNAP".into());
                    c.push("END".into());
                    cases.push(c);
                }
            }
        }
    }
    // (4) SIGKILL from outside at an arbitrary instant: the child announces a burst of writes, the
    //     parent kills it `delay` microseconds later. The directory found must be one the model
    //     passes through during the write in flight (`KW …` is rewritten into `KOBS …`, see the
    //     driver), every acknowledged record must be there, and a new logger carries on.
    let mut root4 = Rng::new(seed ^ 0xC11A);
    for j in 0..n_cases(tier, 60, 1500) {
        let mut r = root4.fork();
        let naming = NAMINGS[(j % 4) as usize];
        let (spec, has_suffix) = gen_spec(&mut r, naming);
        let n: u64 = *r.pick(&[0, 5, 16, 40]);
        let cleanup = match j % 3 { 0 => "never".to_string(), 1 => "1,1".to_string(), _ => format!("{},{}", r.below(3), r.below(2)) };
        let cleanup = if !has_suffix && cleanup != "never" { "1,0".to_string() } else { cleanup };
        let cleanup = if cleanup == "0,0" { "never".to_string() } else { cleanup };
        let rot = Some(format!("{n};_;{naming};{cleanup}"));
        let mut c = vec![format!("CASE flw C11 k{j}"), spec];
        // both direct write modes: `Direct` (also the default) and `SupportCapture`
        match r.below(6) { 0 | 1 => c.push("MODE capture".into()), 2 => c.push("MODE direct".into()), _ => {} }
        c.push(format!("CFG {}", cfg_line(&rot, false, None, false, has_suffix)));
        let mut clock = Clock::new(&mut r);
        let mut seq = 0;
        for _ in 0..r.below(4) {
            c.push(format!("W {} {} -", hex(&record(seq, r.range(1, 24))), clock.tick(&mut r)));
            seq += 1;
        }
        let vnow = clock.tick(&mut r);
        let burst: Vec<String> = (0..r.range(20, 120)).map(|_| { let x = hex(&record(seq, r.range(1, 24))); seq += 1; x }).collect();
        let delay = match r.below(3) { 0 => r.below(300), 1 => r.below(1500), _ => r.below(6000) };
        c.push(format!("KW {} {vnow} {delay}", burst.join(",")));
        c.push("SNAP".into());
        let append = r.chance(1, 2);
        let mut cl2 = Clock { epoch: clock.epoch + *r.pick(&[0i64, 1, 70]), small: false };
        c.push(format!("RESTART {}", cfg_line(&rot, append, None, false, has_suffix)));
        for _ in 0..r.range(1, 5) {
            c.push(format!("W {} {} -", hex(&record(seq, r.range(1, 24))), cl2.tick(&mut r)));
            seq += 1;
        }
        c.push("ERRS".into());
        c.push("READ".into());
        c.push("SNAP".into());
        c.push("END".into());
        cases.push(c);
    }
    cases
}
