//! `names` model family (C14, C16): listing filters on the string level, `FileSpec::try_from`.
use crate::props::flw::{builder, parse_spec, CfgP, RotP, SpecP, FORMATS};
use crate::props::header_answer;
use crate::util::{hexs, tokens, unhexs, Rng};
use crate::Ctx;
use flexi_logger::{FileSpec, LogfileSelector};

/// the verdict of `timestamp_from_ts_infix` (src/writers/file_log_writer/state/timestamps.rs),
/// recomputed with chrono
pub fn ts_ok(infix: &str, fmt: &str) -> bool {
    use chrono::{format::ParseErrorKind, Local, NaiveDate, NaiveDateTime, TimeZone};
    match NaiveDateTime::parse_from_str(infix, fmt) {
        Ok(dt) => Local.from_local_datetime(&dt).earliest().is_some(),
        Err(e) if e.kind() == ParseErrorKind::NotEnough => match NaiveDate::parse_from_str(infix, fmt) {
            Ok(d) => Local.from_local_datetime(&d.and_hms_opt(10, 0, 0).unwrap()).earliest().is_some(),
            Err(_) => false,
        },
        Err(_) => false,
    }
}

pub fn fixed_part(sp: &SpecP) -> String {
    let mut s = sp.basename.clone();
    if let Some(d) = &sp.discr {
        if !s.is_empty() {
            s.push('_');
        }
        s.push_str(d);
    }
    s
}

/// the only text of a name the filter code can hand to the infix filter
pub fn candidate_infix(sp: &SpecP, name: &str) -> Option<String> {
    let fixed = fixed_part(sp);
    let rest = name.strip_prefix(&fixed)?;
    let rest = if fixed.is_empty() { rest } else { rest.strip_prefix('_')? };
    Some(rest.split('.').next().unwrap_or("").to_string())
}

pub fn execute(ctx: &mut Ctx, lines: &[String]) -> Vec<String> {
    let case_id = tokens(&lines[0])[2..].join(" ");
    crate::props::flw::ensure_error_channel(ctx);
    let dir = ctx.work.join(format!("names-{}-{}", std::process::id(), ctx.case_no));
    let _ = std::fs::remove_dir_all(&dir);
    std::fs::create_dir_all(&dir).unwrap();
    let mut spec = SpecP { basename: "app".into(), discr: None, suffix: Some("log".into()), cur: None, fmt: 0 };
    let mut names: Vec<String> = vec![];
    let mut out = Vec::new();
    let mut nontrivial = false;
    for (li, line) in lines.iter().enumerate() {
        let t = tokens(line);
        let ans: String = match t.as_slice() {
            ["CASE", ..] => header_answer(line),
            ["END"] => "END".into(),
            ["NOTE", ..] | ["TSOK", ..] => "ok".into(),
            ["SPEC", rest @ ..] if rest.len() == 5 => { spec = parse_spec(rest); "ok".into() }
            ["NAMES", ns @ ..] => {
                for n in &names { let _ = std::fs::remove_file(dir.join(n)); }
                names = ns.iter().map(|h| unhexs(h).unwrap()).collect();
                for n in &names { std::fs::write(dir.join(n), b"x").unwrap(); }
                "ok".into()
            }
            ["EXIST", rot, f, sel, custom] => {
                ctx.report.count("op.EXIST");
                let cfg = CfgP { rot: if *rot == "1" { Some(RotP { max_size: Some(1_000_000), age: None, naming: if *f == "num" { "num".into() } else { "ts".into() }, cleanup: None }) } else { None }, append: true, cap: None, symlink: false };
                let w = builder(&dir, &spec, &cfg, false, None).try_build().expect("build");
                let mut s = if sel.contains('p') { LogfileSelector::default() } else { LogfileSelector::none() };
                if sel.contains('c') { s = s.with_compressed_files(); }
                if sel.contains('r') { s = s.with_r_current(); }
                if *custom != "_" { s = s.with_custom_current(&unhexs(&custom[1..]).unwrap()); }
                let r = std::panic::catch_unwind(std::panic::AssertUnwindSafe(|| w.existing_log_files(&s)));
                nontrivial = true;
                match r {
                    Err(_) => { ctx.report.fail(&case_id, "listing-panics", &format!("line {li}: existing_log_files panicked with directory {names:?}")); "panic".into() }
                    Ok(Err(e)) => format!("error {e:?}"),
                    Ok(Ok(v)) => {
                        let mut got: Vec<String> = v.iter().map(|p| p.file_name().unwrap().to_string_lossy().to_string()).collect();
                        got.sort();
                        // oracle (C14): nothing that is not named like a file of the family is listed
                        if *rot == "1" {
                            for g in &got {
                                if !is_family_name(&spec, g, *f == "num") {
                                    ctx.report.fail(&case_id, "foreign-file-listed", &format!("line {li}: existing_log_files lists {g:?}, which does not follow the naming pattern of family {:?}", fixed_part(&spec)));
                                }
                            }
                        }
                        if got.is_empty() { "-".into() } else { got.iter().map(|g| hexs(g)).collect::<Vec<_>>().join(" ") }
                    }
                }
            }
            ["TRYFROM", f, d] => {
                let file = if *d == "_" { unhexs(f).unwrap() } else { format!("{}/{}", unhexs(&d[1..]).unwrap(), unhexs(f).unwrap()) };
                ctx.report.count("op.TRYFROM");
                nontrivial = true;
                let cwd_rel = file.clone();
                let r = std::panic::catch_unwind(|| FileSpec::try_from(cwd_rel.as_str()).map(|fs| fs.as_pathbuf(None)));
                match r {
                    Ok(Ok(p)) => {
                        // oracle (C16): the derived spec denotes exactly that path
                        let want = std::path::Path::new(&file);
                        let same = p.file_name() == want.file_name() && (p.parent() == want.parent() || (want.parent() == Some(std::path::Path::new("")) && p.parent() == Some(std::path::Path::new("."))));
                        if !same {
                            ctx.report.fail(&case_id, "try-from-path", &format!("line {li}: FileSpec::try_from({file:?}) denotes {p:?}"));
                        }
                        // ... and a writer built from it in a private directory writes there
                        let target = dir.join(&file);
                        if let Ok(fs) = FileSpec::try_from(target.clone()) {
                            if let Ok(w) = flexi_logger::writers::FileLogWriter::builder(fs).format(crate::props::flw::raw_format).try_build() {
                                use flexi_logger::writers::LogWriter;
                                let _ = w.write(&mut flexi_logger::DeferredNow::new(), &log::Record::builder().args(format_args!("x")).build());
                                w.shutdown();
                                if !target.exists() {
                                    ctx.report.fail(&case_id, "try-from-writes-elsewhere", &format!("line {li}: a writer built from try_from({target:?}) did not create that file"));
                                }
                                let _ = std::fs::remove_file(&target);
                            } else {
                                ctx.report.fail(&case_id, "try-from-build-fails", &format!("line {li}: a writer cannot be built from try_from({target:?})"));
                            }
                        }
                        hexs(&p.file_name().unwrap().to_string_lossy())
                    }
                    Ok(Err(e)) => format!("error {e:?}"),
                    Err(_) => "panic".into(),
                }
            }
            _ => format!("bad-op {line}"),
        };
        out.push(ans);
    }
    let _ = std::fs::remove_dir_all(&dir);
    if nontrivial { ctx.report.nontrivial_case(lines); }
    if ctx.report.samples.len() < 3 { ctx.report.samples.push(lines.join(" | ")); }
    out
}

/// declarative family grammar, independent of the filter code:
/// `<fixed>_<infix>[.restart-NNNN][.suffix][.gz]`
pub fn is_family_name(sp: &SpecP, name: &str, numbers: bool) -> bool {
    let fixed = fixed_part(sp);
    let Some(rest) = name.strip_prefix(&fixed) else { return false };
    let rest = if fixed.is_empty() { rest } else { match rest.strip_prefix('_') { Some(r) => r, None => return false } };
    let rest = rest.strip_suffix(".gz").unwrap_or(rest);
    let rest = match &sp.suffix { Some(s) => match rest.strip_suffix(&format!(".{s}")) { Some(r) => r, None => return false }, None => rest };
    let (infix, restart) = match rest.find(".restart-") { Some(i) => (&rest[..i], &rest[i + 9..]), None => (rest, "") };
    if rest.contains(".restart-") && !(restart.len() == 4 && restart.bytes().all(|b| b.is_ascii_digit()) && !numbers) { return false; }
    if infix.contains('.') { return false; }
    if infix == sp.cur.as_deref().unwrap_or("rCURRENT") || infix == "rCURRENT" { return true; }
    if numbers { infix.len() >= 6 && infix.starts_with('r') && infix[1..].bytes().all(|b| b.is_ascii_digit()) } else { ts_ok(infix, FORMATS[sp.fmt]) }
}

/// near misses of the family pattern for C14
pub fn near_misses(r: &mut Rng, sp: &SpecP, numbers: bool) -> Vec<String> {
    let fixed = fixed_part(sp);
    let sfx = sp.suffix.clone().map_or(String::new(), |s| format!(".{s}"));
    let good = if numbers { "r00007".to_string() } else { match sp.fmt { 1 => "r20240131-101112".into(), 2 => "r2024-01-31_10-11-12_x".into(), 3 => "r31-01-2024_10-11-12".into(), 4 => "r2024-01-31".into(), _ => "r2024-01-31_10-11-12".to_string() } };
    let sep = if fixed.is_empty() { "" } else { "_" };
    let mut v = vec![
        format!("{fixed}X{sep}{good}{sfx}"),                // longer basename
        format!("{fixed}X{good}{sfx}"),                     // no separator
        format!("{fixed}{sep}r2d2_{good}{sfx}"),            // other discriminant that looks like an infix
        format!("{fixed}{sep}other_{good}{sfx}"),           // other discriminant
        format!("{fixed}{sep}{good}.txt"),                  // other suffix
        format!("{fixed}{sep}{good}{sfx}.bak"),             // trailing extension
        format!("{fixed}{sep}{good}x{sfx}"),                // infix with trailing garbage
        format!("{fixed}{sep}r007{sfx}"),                   // too few digits
        format!("{fixed}{sep}rCURRENT{sfx}.old"),
        format!("{fixed}{sfx}"),                            // missing infix
        format!("{fixed}{sep}"),
        format!("{fixed}é{sfx}"),                           // multi-byte right after the fixed part
        format!("{fixed}{sep}é{good}{sfx}"),
        format!("{fixed}{sep}{good}é{sfx}"),
        format!("{fixed}{sep}r2024-13-45_99-99-99{sfx}"),    // impossible date
        format!("{fixed}{sep}r2024-01-31{sfx}"),            // date only
        format!("{fixed}{sep}{good}.restart-x{sfx}"),        // restart marker without number
        format!("{fixed}{sep}{good}.restart-12{sfx}"),
        "unrelated.log".to_string(),
        format!(".{fixed}{sep}{good}{sfx}"),                // dot file
        // what lenient number / date parsers accept but the scheme never produces
        format!("{fixed}{sep}r+0007{sfx}"),                 // sign instead of a digit
        format!("{fixed}{sep}r+00007{sfx}"),
        format!("{fixed}{sep}r-0007{sfx}"),
        format!("{fixed}{sep}r 0007{sfx}"),                 // blank
        format!("{fixed}{sep}r0000x{sfx}"),
        format!("{fixed}{sep}r٠٠٠٠٧{sfx}"),                 // non-ASCII digits
        format!("{fixed}{sep}r0x007{sfx}"),
        format!("{fixed}{sep}r00_07{sfx}"),
        format!("{fixed}{sep}R00007{sfx}"),                 // other case
        format!("{fixed}{sep}r+2024-01-31_10-11-12{sfx}"),
        format!("{fixed}{sep}r2024-1-31_10-11-12{sfx}"),     // unpadded field
        format!("{fixed}{sep}r2024-01-31 10-11-12{sfx}"),
        format!("{fixed}{sep}r2024-01-31_10-11-12 {sfx}"),   // trailing blank
        format!("{fixed}{sep}r2024-01-31_10-11{sfx}"),       // seconds missing
        format!("{fixed}{sep}rcurrent{sfx}"),
        // extensions that merely END with the suffix letters
        format!("{fixed}{sep}{good}.sys{}", sp.suffix.clone().unwrap_or("log".into())),
        format!("{fixed}{sep}{good}.X{}", sp.suffix.clone().unwrap_or("log".into())),
        format!("{fixed}{sep}rCURRENT.change{}", sp.suffix.clone().unwrap_or("log".into())),
        format!("{fixed}{sep}{good}{sfx}.tgz"),
        format!("{fixed}{sep}{good}{sfx}.GZ"),
    ];
    if fixed.len() > 1 {
        let mut cut = fixed.len() - 1;
        while !fixed.is_char_boundary(cut) { cut -= 1; }
        v.push(format!("{}{sep}{good}{sfx}", &fixed[..cut])); // shorter basename sharing a prefix
    }
    if sp.suffix.is_some() {
        v.push(format!("{fixed}{sep}{good}"));               // suffix missing
    }
    // another family of the SAME length: same basename with a sibling discriminant (`node1` / `node2`),
    // or a sibling basename — every byte offset of the fixed part fits, only its text differs
    {
        let sibling = |t: &str| -> Option<String> {
            let mut cs: Vec<char> = t.chars().collect();
            let last = cs.pop()?;
            if !last.is_ascii() { return None; }
            cs.push(if last == 'z' { 'y' } else if last == '9' { '8' } else if last.is_ascii_digit() { ((last as u8) + 1) as char } else { 'z' });
            Some(cs.into_iter().collect())
        };
        if let Some(f2) = sibling(&fixed) {
            if f2 != fixed { v.push(format!("{f2}{sep}{good}{sfx}")); v.push(format!("{f2}{sep}rCURRENT{sfx}")); }
        }
        if let (Some(_), Some(b2)) = (&sp.discr, sibling(&sp.basename)) {
            if !sp.basename.is_empty() { v.push(format!("{b2}_{}{sep}{good}{sfx}", sp.discr.clone().unwrap())); }
        }
    }
    v.retain(|n| !n.is_empty() && !n.contains('/') && n != "." && n != "..");
    // the random stream keeps inside the guarded domain: names with extra dot-separated parts
    // between infix and suffix are the known finding C14-extra-dots (directed corpus case)
    v.retain(|n| !is_family_name(sp, n, numbers) && !extra_dots(sp, n, numbers));
    let k = r.range(2, 7) as usize;
    let mut pick = Vec::new();
    for _ in 0..k {
        if v.is_empty() { break; }
        let i = r.below(v.len() as u64) as usize;
        pick.push(v.remove(i));
    }
    pick
}

/// `<fixed>_<valid infix>.<anything>...` accepted by the code although not in the pattern
pub fn extra_dots(sp: &SpecP, name: &str, numbers: bool) -> bool {
    let Some(infix) = candidate_infix(sp, name) else { return false };
    let infix_ok = if numbers { infix.len() >= 6 && infix.starts_with('r') && infix[1..].bytes().all(|b| b.is_ascii_digit()) } else { ts_ok(&infix, FORMATS[sp.fmt]) };
    // … and the code's suffix test passes: the LAST extension is the suffix (any, if none is
    // configured) or `gz`. Names with another last extension (`.txt`, `.log.bak`, `.syslog`) are
    // foreign for the code, too, and belong to the random stream.
    let last_ext = name.rsplit_once('.').map(|x| x.1);
    let suffix_passes = match &sp.suffix { Some(s) => last_ext == Some(s.as_str()) || last_ext == Some("gz"), None => true };
    (infix_ok || infix == sp.cur.as_deref().unwrap_or("rCURRENT") || infix == "rCURRENT") && suffix_passes && !is_family_name(sp, name, numbers)
}

pub fn gen_names_cases(prop: &str, tier: &str, seed: u64) -> Vec<Vec<String>> {
    let mut root = Rng::new(seed ^ 0xA11CE);
    let n = if tier == "thorough" { 3000 } else { 250 };
    let mut cases = Vec::new();
    for k in 0..n {
        let mut r = root.fork();
        let mut c = vec![format!("CASE names {prop} n{k}")];
        let numbers = r.chance(1, 2);
        let (spec_line, _) = crate::props::flwgen::gen_spec(&mut r, if numbers { "num" } else { "ts" });
        let sp = parse_spec(&tokens(&spec_line)[1..]);
        c.push(spec_line);
        let fixed = fixed_part(&sp);
        let sfx = sp.suffix.clone().map_or(String::new(), |s| format!(".{s}"));
        let sep = if fixed.is_empty() { "" } else { "_" };
        let mut names: Vec<String> = near_misses(&mut r, &sp, numbers);
        // some real family files
        for i in 0..r.below(4) {
            let infix = if numbers { format!("r{:05}", i * 7 + r.below(3)) } else { let st = crate::props::flwgen::pack(1_700_000_000 + (i as i64) * 90 + r.below(50) as i64); let t = crate::props::flw::stamp_to_local(st); t.format(FORMATS[sp.fmt]).to_string() };
            names.push(format!("{fixed}{sep}{infix}{sfx}"));
            if sp.suffix.is_some() && r.chance(1, 3) { names.push(format!("{fixed}{sep}{infix}x{sfx}.gz").replace("x.", ".")); }
            if !numbers && r.chance(1, 3) { names.push(format!("{fixed}{sep}{infix}.restart-000{}{sfx}", r.below(3))); }
        }
        if r.chance(1, 2) { names.push(format!("{fixed}{sep}{}{sfx}", sp.cur.clone().unwrap_or("rCURRENT".into()))); }
        // the zero padding of the index is a minimum width: indices of six and more digits are
        // files of the family, too (a pure listing question here; what the cleanup makes of them is C07)
        if numbers && r.chance(1, 4) {
            names.push(format!("{fixed}{sep}r{}{sfx}", 100_000 + r.below(900_000)));
            if r.chance(1, 2) { names.push(format!("{fixed}{sep}r{}{sfx}", 1_000_000 + r.below(9_000_000))); }
        }
        // with a custom current infix: the `rCURRENT` file of an earlier run with the standard naming
        // next to it (a selector may ask for both)
        if sp.cur.is_some() && r.chance(1, 2) { names.push(format!("{fixed}{sep}rCURRENT{sfx}")); }
        names.sort();
        names.dedup();
        names.retain(|n| !extra_dots(&sp, n, numbers));
        for n in &names {
            if let Some(i) = candidate_infix(&sp, n) {
                if !numbers { c.push(format!("TSOK {} {}", hexs(&i), ts_ok(&i, FORMATS[sp.fmt]) as u8)); }
            }
        }
        c.push(format!("NAMES {}", names.iter().map(|n| hexs(n)).collect::<Vec<_>>().join(" ")));
        for sel in ["p", "pc", "pcr", "c", "r", ""] {
            let custom = if sp.cur.is_some() && r.chance(1, 2) { format!("s{}", hexs(sp.cur.as_ref().unwrap())) } else { "_".to_string() };
            c.push(format!("EXIST 1 {} {} {custom}", if numbers { "num" } else { "ts" }, if sel.is_empty() { "-" } else { sel }));
        }
        if prop == "C16" {
            c.push("EXIST 0 none p _".to_string());
            for f in ["bare.log", "noext", ".dotfile", "a.b.c", "x.trc", "with space.log", "ünï.lög", "trailingdot.", "x_y_z.log", "..hidden.txt"] {
                if r.chance(1, 2) { c.push(format!("TRYFROM {} {}", hexs(f), r.pick_s(&["_", "_", "s737562", "s7375622f646972", "s2e"]))); }
            }
        }
        c.push("END".into());
        cases.push(c);
    }
    cases
}
