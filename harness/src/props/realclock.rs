//! Cases with the REAL clock and the REAL file-system times (`NOTE realclock <base stamp>`).
//!
//! Everywhere else the harness drives the virtual clock of the hooks, and the creation time of a
//! file comes from the hooks' table; the code that asks the operating system for the birth time of
//! an existing file (`get_creation_timestamp` and its fallbacks) is then bypassed. Here nothing is
//! virtual: the stamps of the case are offsets (whole seconds from the base stamp) that the
//! executor maps to real seconds by sleeping into the middle of the intended second; names are
//! compared as offsets (`STAMPS`). After every timed operation the executor checks that the
//! operation really happened within the intended second; if not (a loaded machine), the attempt is
//! repeated, and after three misses the case is answered `timing-miss` (inconclusive, not compared).
use super::flw::{builder, list_dir, parse_cfg, parse_spec, read_file, stamp_to_local, CfgP, SpecP};
use super::header_answer;
use crate::util::{hex, tokens, unhex};
use crate::Ctx;
use chrono::{Local, NaiveDateTime, TimeZone};
use flexi_logger::writers::{ArcFileLogWriter, FileLogWriterHandle, LogWriter};
use flexi_logger::DeferredNow;
use log::Record;
use std::path::Path;

fn epoch_ms() -> i64 {
    Local::now().timestamp_millis()
}

struct Clock {
    r0: i64,   // epoch second that offset 0 is mapped to
    base: i64, // epoch second of the base stamp
}
impl Clock {
    fn off(&self, stamp: u64) -> i64 {
        stamp_to_local(stamp).timestamp() - self.base
    }
    /// sleeps into the middle of the second of `off` (no sleeping if that second is running)
    fn wait_to(&self, off: i64) -> Result<(), String> {
        let target = (self.r0 + off) * 1000 + 450;
        let now = epoch_ms();
        if now < target {
            std::thread::sleep(std::time::Duration::from_millis((target - now) as u64));
        }
        self.within(off)
    }
    fn within(&self, off: i64) -> Result<(), String> {
        let s = epoch_ms().div_euclid(1000);
        if s == self.r0 + off { Ok(()) } else { Err(format!("second {} instead of {}", s - self.r0, off)) }
    }
}

/// offset and restart number of a timestamp-named file (standard format)
fn stamp_of(name: &str, c: &Clock) -> Option<(i64, Option<u32>, bool)> {
    let i = name.find("_r2")?;
    let s = &name[i + 1..];
    let ts = s.get(..20)?;
    let dt = NaiveDateTime::parse_from_str(ts, "r%Y-%m-%d_%H-%M-%S").ok()?;
    let t = Local.from_local_datetime(&dt).earliest()?.timestamp();
    let rest = &s[20..];
    let restart = rest.strip_prefix(".restart-").and_then(|r| r.get(..4)).and_then(|r| r.parse().ok());
    Some((t - c.r0, restart, name.ends_with(".gz")))
}

fn reading_order(dir: &Path, sp: &SpecP) -> Vec<String> {
    let cur = sp.cur.clone().unwrap_or_else(|| "rCURRENT".into());
    let mut names = list_dir(dir, &[]);
    names.sort();
    let (mut rot, curs): (Vec<String>, Vec<String>) = names.into_iter().partition(|n| !n.contains(&cur));
    rot.extend(curs);
    rot
}

/// does the file system of the work directory report birth times at all? (where it does not, the
/// code under test falls back to the modification time by design, and these cases say nothing)
fn birth_times_available(ctx: &Ctx) -> bool {
    let _ = std::fs::create_dir_all(&ctx.work);
    let p = ctx.work.join(format!("btime-probe-{}", std::process::id()));
    let ok = std::fs::write(&p, b"x").is_ok() && std::fs::metadata(&p).and_then(|m| m.created()).is_ok();
    let _ = std::fs::remove_file(&p);
    ok
}

pub fn execute(ctx: &mut Ctx, lines: &[String]) -> Vec<String> {
    let case_id = tokens(&lines[0])[2..].join(" ");
    if !birth_times_available(ctx) {
        ctx.report.count("realclock.no-birth-times");
        ctx.report.inconclusive.push((case_id, "the file system of the work directory does not report birth times".into()));
        return lines.iter().map(|l| if l.starts_with("CASE") { header_answer(l) } else { "timing-miss".to_string() }).collect();
    }
    let mut why = String::new();
    for attempt in 0..3 {
        match attempt_once(ctx, lines, &case_id, attempt) {
            Ok(out) => {
                ctx.report.count("realclock.cases");
                ctx.report.nontrivial_case(lines);
                return out;
            }
            Err(e) => {
                ctx.report.count("realclock.timing-retry");
                why = e;
            }
        }
    }
    ctx.report.inconclusive.push((case_id, format!("real-clock case missed its seconds three times: {why}")));
    lines.iter().map(|l| if l.starts_with("CASE") { header_answer(l) } else { "timing-miss".to_string() }).collect()
}

fn attempt_once(ctx: &mut Ctx, lines: &[String], case_id: &str, attempt: usize) -> Result<Vec<String>, String> {
    let dir = ctx.work.join(format!("real-{}-{}-{}", std::process::id(), ctx.case_no, attempt));
    let _ = std::fs::remove_dir_all(&dir);
    std::fs::create_dir_all(&dir).unwrap();
    flexi_logger::verif_hooks::set_virtual_now(None);
    flexi_logger::verif_hooks::clear_creation_table();
    flexi_logger::verif_hooks::set_fault_handler(None);
    flexi_logger::verif_hooks::set_point_handler(None);
    let mut spec = SpecP { basename: "app".into(), discr: None, suffix: Some("log".into()), cur: None, fmt: 0 };
    let mut cfg = CfgP { rot: None, append: false, cap: None, symlink: false };
    let mut w: Option<(ArcFileLogWriter, FileLogWriterHandle)> = None;
    // start at a second boundary
    let now = epoch_ms();
    std::thread::sleep(std::time::Duration::from_millis((1000 - now.rem_euclid(1000)) as u64));
    let mut clock = Clock { r0: epoch_ms().div_euclid(1000), base: 0 };
    // oracle state: (offset of the birth second, offset of the last-modification second) of the
    // current file of a non-direct timestamp naming when the run ended
    let mut ended: Option<(i64, i64)> = None;
    let mut out = Vec::with_capacity(lines.len());
    let res = (|| -> Result<(), String> {
        for (li, line) in lines.iter().enumerate() {
            let t = tokens(line);
            let ans: String = match t.as_slice() {
                ["CASE", ..] => header_answer(line),
                ["NOTE", "realclock", b] => {
                    clock.base = stamp_to_local(b.parse().unwrap()).timestamp();
                    "ok".into()
                }
                ["NOTE", ..] => "ok".into(),
                ["SPEC", rest @ ..] if rest.len() == 5 => { spec = parse_spec(rest); "ok".into() }
                ["CFG", rest @ ..] if rest.len() == 5 => { cfg = parse_cfg(rest); "ok".into() }
                ["AT", now] => {
                    clock.wait_to(clock.off(now.parse().unwrap()))?;
                    "ok".into()
                }
                ["W", b, now, _fl] => {
                    let off = clock.off(now.parse().unwrap());
                    clock.wait_to(off)?;
                    if w.is_none() {
                        w = Some(builder(&dir, &spec, &cfg, false, None).try_build_with_handle().expect("try_build_with_handle"));
                    }
                    let bytes = unhex(b).unwrap();
                    let payload = String::from_utf8(bytes[..bytes.len() - 1].to_vec()).expect("utf8 payload");
                    let r = LogWriter::write(&*w.as_ref().unwrap().0, &mut DeferredNow::new(), &Record::builder().level(log::Level::Info).args(format_args!("{}", payload)).build());
                    clock.within(off)?;
                    ctx.report.count("realclock.W");
                    if r.is_ok() { "ok".into() } else { "err".into() }
                }
                ["FLUSH"] => { if let Some((a, _)) = &w { let _ = LogWriter::flush(&**a); } "ok".into() }
                ["SHUT"] => { if let Some((a, _)) = &w { LogWriter::shutdown(&**a); } "ok".into() }
                ["RESTART", rest @ ..] if rest.len() == 5 => {
                    w = None;
                    ended = None;
                    if cfg.rot.as_ref().map_or(false, |r| r.naming == "ts") {
                        let cur = dir.join(format!("app_{}.log", spec.cur.clone().unwrap_or_else(|| "rCURRENT".into())));
                        if let Ok(md) = std::fs::metadata(&cur) {
                            if let (Ok(c), Ok(m)) = (md.created(), md.modified()) {
                                let sec = |x: std::time::SystemTime| chrono::DateTime::<Local>::from(x).timestamp() - clock.r0;
                                ended = Some((sec(c), sec(m)));
                            }
                        }
                    }
                    cfg = parse_cfg(rest);
                    ctx.report.count("realclock.RESTART");
                    "ok".into()
                }
                ["PARTS"] => {
                    let v = reading_order(&dir, &spec).iter().map(|n| read_file(&dir.join(n)).len().to_string()).collect::<Vec<_>>();
                    if v.is_empty() { "-".into() } else { v.join(",") }
                }
                ["READ"] => {
                    let mut all = Vec::new();
                    for n in reading_order(&dir, &spec) { all.extend(read_file(&dir.join(&n))); }
                    hex(&all)
                }
                ["STAMPS", _base] => {
                    let mut v: Vec<(i64, Option<u32>, bool)> = list_dir(&dir, &[]).iter().filter_map(|n| stamp_of(n, &clock)).collect();
                    v.sort();
                    // oracle (C09), independent of the model: a current file that a new run rotates
                    // out at its start is named after the second in which the file was CREATED
                    // (what the file system says), not after its last modification
                    if let (Some((born, modified)), Some(r)) = (ended, cfg.rot.as_ref()) {
                        if r.naming == "ts" && !cfg.append && w.is_some() && !v.iter().any(|(o, _, _)| *o == born) {
                            ctx.report.fail(case_id, "rotated-name-not-birth-time", &format!("line {li}: the current file of the previous run was created in second {born} and last modified in second {modified}; the new run rotated it out, but no rotated file carries second {born}: {v:?}"));
                        }
                        if born != modified { ctx.report.count("realclock.birth-differs-from-mtime"); }
                    }
                    let s: Vec<String> = v.iter().map(|(o, r, gz)| format!("{o}{}{}", r.map_or(String::new(), |k| format!("+{k}")), if *gz { "z" } else { "" })).collect();
                    if s.is_empty() { "-".into() } else { s.join(",") }
                }
                ["END"] => "END".into(),
                _ => "bad-op".into(),
            };
            out.push(ans);
        }
        Ok(())
    })();
    drop(w);
    if std::env::var_os("FVH_KEEP").is_none() { let _ = std::fs::remove_dir_all(&dir); }
    res.map(|()| out)
}
