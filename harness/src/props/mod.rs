pub mod conc;
pub mod flw;
pub mod fmt;
pub mod names;
pub mod realclock;
pub mod flwgen;
pub mod robust;
pub mod spec;
pub mod stdout;

use crate::util::tokens;
use crate::Ctx;

/// Generated cases for one property (each case = protocol lines `CASE .. END`).
pub fn generate(prop: &str, tier: &str, seed: u64) -> Vec<Vec<String>> {
    match prop {
        "C02" => spec::gen_c02(tier, seed),
        "C05" => spec::gen_c05(tier, seed),
        "C17" => spec::gen_c17(tier, seed),
        "C12" => spec::gen_c12(tier, seed),
        "C13" => { let mut v = spec::gen_c13(tier, seed); v.extend(stdout::gen_syslog(tier, seed)); v }
        "C01" => { let mut v = flwgen::gen_c01(tier, seed); v.extend(flwgen::gen_c01_unrotatable(tier, seed)); v }
        "C03" => conc::gen_c03(tier, seed),
        "C20" => { let mut v = fmt::gen_c20(tier, seed); v.extend(robust::gen_c20_recursive(tier, seed)); v.extend(robust::gen_bufframe(tier, seed)); v }
        "C14n" => names::gen_names_cases("C14", tier, seed),
        "C16n" => names::gen_names_cases("C16", tier, seed),
        "C10" => robust::gen_c10(tier, seed),
        "C11" => flwgen::gen_c11(tier, seed),
        "C04" => { let mut v = flwgen::gen_c04(tier, seed); v.extend(stdout::gen_std("C04", tier, seed)); v }
        "C06" => flwgen::gen_c06(tier, seed),
        "C07" => flwgen::gen_c07(tier, seed),
        "C08" => flwgen::gen_c08(tier, seed),
        "C09" => flwgen::gen_c09(tier, seed),
        "C15" => {
            // … and records logged from within Display (a separate path in the synchronous writer, none
            // in the asynchronous one): the same bytes in every write mode, with LF and with CRLF
            let mut v = flwgen::gen_c15(tier, seed);
            for c in robust::gen_c20_recursive(tier, seed) {
                let mut lf = c.clone();
                lf[0] = lf[0].replacen("C20 ", "C15 lf", 1);
                lf[1] = lf[1].replace(" crlf", "");
                v.push(lf);
                let mut crlf = c;
                crlf[0] = crlf[0].replacen("C20 ", "C15 ", 1);
                v.push(crlf);
            }
            v
        }
        "C14" => flwgen::gen_c14(tier, seed),
        "C16" => flwgen::gen_c16(tier, seed),
        "C18" => flwgen::gen_c18(tier, seed),
        "C19" => { let mut v = flwgen::gen_c19(tier, seed); v.extend(stdout::gen_errchan(tier, seed)); v }
        _ => {
            eprintln!("no generator for {prop}");
            std::process::exit(2);
        }
    }
}

pub fn init_process(ctx: &mut Ctx) {
    // one error-channel file per process; the channel is process-global in flexi_logger
    let _ = ctx;
}

/// Executes one case against the implementation. Returns the cases as executed (normally the
/// input itself; executors that observe a real schedule rewrite it into the observed history)
/// with one answer per protocol line.
pub fn execute(ctx: &mut Ctx, lines: &[String]) -> Vec<(Vec<String>, Vec<String>)> {
    let hdr = tokens(&lines[0]);
    assert!(hdr.len() >= 3 && hdr[0] == "CASE", "bad header {:?}", lines[0]);
    ctx.report.evaluations += 1;
    match hdr[1] {
        "spec" => vec![(lines.to_vec(), spec::execute(ctx, lines))],
        "flw" if lines.iter().take(6).any(|l| l.starts_with("NOTE realclock ")) => vec![(lines.to_vec(), realclock::execute(ctx, lines))],
        "flw" | "robust" => {
            let ans = flw::execute(ctx, lines);
            c15_mode_oracle(ctx, &hdr, lines, &ans);
            // `BGTRACE` is rewritten into what was observed of the cleanup thread (`BGOBS …`)
            let obs = flw::BGOBS_LINE.lock().unwrap().take();
            // `KW` (kill at an arbitrary instant) is rewritten into what was found afterwards (`KOBS …`)
            let kobs = flw::KOBS_LINE.lock().unwrap().take();
            let eff: Vec<String> = lines.iter().map(|l| if l == "BGTRACE" { obs.clone().unwrap_or_else(|| "NOTE bgtrace-not-applicable".into()) } else if l.starts_with("KW ") { kobs.clone().unwrap_or_else(|| l.clone()) } else { l.clone() }).collect();
            vec![(eff, ans)]
        }
        "conc" => conc::execute(ctx, lines),
        "fmt" => vec![(lines.to_vec(), fmt::execute(ctx, lines))],
        "names" => vec![(lines.to_vec(), names::execute(ctx, lines))],
        "std" => {
            let ans = stdout::execute(ctx, lines);
            // `ERRCHAN ch fault n` is rewritten into what the reference run reported (`ERRCHANOBS ch <reports>`)
            let reference = stdout::ERRCHAN_REF.lock().unwrap().take();
            let eff: Vec<String> = lines.iter().map(|l| { let t = tokens(l); if t.first() == Some(&"ERRCHAN") { format!("ERRCHANOBS {} {}", t[1], reference.clone().unwrap_or_else(|| "-".into())) } else { l.clone() } }).collect();
            vec![(eff, ans)]
        }
        m => panic!("unknown model {m}"),
    }
}

/// C15 said directly, implementation against implementation: the same history is executed once
/// more in `WriteMode::Direct`; what is found after the final shutdown (bytes, partition, names)
/// must be the same. (Generated histories only; the corpus holds the known finding about raw
/// chunks that look like control messages.)
fn c15_mode_oracle(ctx: &mut Ctx, hdr: &[&str], lines: &[String], ans: &[String]) {
    if hdr[2] != "C15" || hdr.len() < 4 || hdr[3].starts_with("corpus:") || hdr[3].starts_with("lf") { return; }
    let Some(mi) = lines.iter().position(|l| l.starts_with("MODE ")) else { return };
    if lines[mi] == "MODE direct" || lines.iter().any(|l| l.starts_with("RECURSE") || l.starts_with("NOTE realclock")) { return; }
    let Some(last_shut) = lines.iter().rposition(|l| l == "SHUT") else { return };
    let mut twin: Vec<String> = lines.to_vec();
    twin[mi] = "MODE direct".into();
    // the direct run gets the capacity `none` in its configuration lines, too (harness bookkeeping)
    let mut sub = Ctx { work: ctx.work.join("c15-direct-twin"), report: Default::default(), case_no: ctx.case_no };
    let _ = std::fs::create_dir_all(&sub.work);
    let ans2 = flw::execute(&mut sub, &twin);
    let _ = std::fs::remove_dir_all(&sub.work);
    ctx.report.count("oracle.mode-twin");
    for i in last_shut + 1..lines.len().min(ans.len()).min(ans2.len()) {
        if matches!(lines[i].as_str(), "READ" | "PARTS" | "SNAP") && ans[i] != ans2[i] {
            ctx.report.fail(&hdr[2..].join(" "), "mode-dependent",
                &format!("line {i} ({}): after the final shutdown the files differ between `{}` and the same history in WriteMode::Direct:\n  {}: {}\n  direct: {}", lines[i], lines[mi], lines[mi], ans[i], ans2[i]));
            return;
        }
    }
}

pub fn child_main(args: &[String]) {
    match args.first().map(String::as_str) {
        Some("dup") => spec::child_dup(&args[1..]),
        Some("std") => stdout::child_std(&args[1..]),
        Some("crash") => {
            // fvh child crash <casefile> <dir> <acks> <side> <work>
            *flw::CRASH_CHILD.lock().unwrap() = Some(flw::CrashChild { dir: args[2].clone().into(), acks: args[3].clone().into(), side: args[4].clone().into() });
            let text = std::fs::read_to_string(&args[1]).unwrap();
            let lines: Vec<String> = text.lines().filter(|l| !l.trim().is_empty()).map(str::to_string).collect();
            let mut ctx = crate::Ctx { work: args[5].clone().into(), report: Default::default(), case_no: 0 };
            let _ = flw::execute(&mut ctx, &lines);
        }
        Some("recurse") => robust::child_recurse(&args[1..]),
        Some("buflog") => robust::child_buflog(&args[1..]),
        Some("errchan") => stdout::child_errchan(&args[1..]),
        Some("bufframe") => robust::child_bufframe(&args[1..]),
        Some("concstd") => conc::child_concstd(&args[1..]),
        _ => {
            eprintln!("unknown child mode");
            std::process::exit(2);
        }
    }
}

pub fn header_answer(line: &str) -> String {
    let t = tokens(line);
    format!("CASE {}", t[2..].join(" "))
}
