//! `fmt` model family (C20): format functions, framing, JSON, one timestamp per record.
use crate::props::flw::stamp_to_local;
use crate::props::header_answer;
use crate::util::{hex, hexs, tokens, unhexs, Rng};
use crate::Ctx;
use flexi_logger::writers::{FileLogWriter, LogWriter};
use flexi_logger::{DeferredNow, FileSpec, FormatFunction};
use log::Record;
use std::sync::{Arc, Mutex};

const TS_FMT: &str = "%Y-%m-%d %H:%M:%S%.6f %:z";

fn format_by_name(n: &str) -> FormatFunction {
    match n {
        "default" => flexi_logger::default_format,
        "opt" => flexi_logger::opt_format,
        "detailed" => flexi_logger::detailed_format,
        "with_thread" => flexi_logger::with_thread,
        "colored_default" => flexi_logger::colored_default_format,
        "colored_opt" => flexi_logger::colored_opt_format,
        "colored_detailed" => flexi_logger::colored_detailed_format,
        "colored_with_thread" => flexi_logger::colored_with_thread,
        "json" => flexi_logger::json_format,
        _ => panic!("format {n}"),
    }
}

#[derive(Clone, Default)]
struct RecP {
    level: u64,
    module: Option<String>,
    file: Option<String>,
    line: Option<u32>,
    thread: Option<String>,
    msg: String,
    kvs: Vec<(String, KvP)>,
}
#[derive(Clone)]
enum KvP {
    S(String),
    N(u64),
}

fn with_record<T>(r: &RecP, f: impl FnOnce(&Record) -> T) -> T {
    with_record_t(r, None, f)
}
fn with_record_t<T>(r: &RecP, target: Option<&str>, f: impl FnOnce(&Record) -> T) -> T {
    let kvs: Vec<(&str, log::kv::Value)> = r.kvs.iter().map(|(k, v)| (k.as_str(), match v { KvP::S(s) => log::kv::Value::from(s.as_str()), KvP::N(n) => log::kv::Value::from(*n) })).collect();
    let src: &[(&str, log::kv::Value)] = &kvs;
    let mut b = Record::builder();
    b.level(crate::props::spec::level(r.level)).module_path(r.module.as_deref()).file(r.file.as_deref()).line(r.line);
    if let Some(t) = target { b.target(t); }
    if !kvs.is_empty() {
        b.key_values(&src);
    }
    f(&b.args(format_args!("{}", r.msg)).build())
}

/// runs `f` in a thread with the given name (or an unnamed thread)
fn in_thread<T: Send + 'static>(name: Option<String>, f: impl FnOnce() -> T + Send + 'static) -> T {
    match name {
        Some(n) => std::thread::Builder::new().name(n).spawn(f).unwrap().join().unwrap(),
        None => std::thread::spawn(f).join().unwrap(),
    }
}

struct FmtWriter {
    fmt: Mutex<FormatFunction>,
    sink: Arc<Mutex<Vec<u8>>>,
}
impl LogWriter for FmtWriter {
    fn write(&self, now: &mut DeferredNow, record: &Record) -> std::io::Result<()> {
        let mut buf = Vec::new();
        (*self.fmt.lock().unwrap())(&mut buf, now, record)?;
        buf.push(b'\n');
        self.sink.lock().unwrap().extend(buf);
        Ok(())
    }
    fn flush(&self) -> std::io::Result<()> {
        Ok(())
    }
    fn format(&mut self, format: FormatFunction) {
        *self.fmt.lock().unwrap() = format;
    }
}

pub fn execute(ctx: &mut Ctx, lines: &[String]) -> Vec<String> {
    let case_id = tokens(&lines[0])[2..].join(" ");
    let errchan = crate::props::flw::ensure_error_channel(ctx);
    let mut rec = RecP { level: 3, ..Default::default() };
    let mut stamp: u64 = 20240101120000;
    let mut out = Vec::new();
    let mut nontrivial = false;
    for (li, line) in lines.iter().enumerate() {
        let t = tokens(line);
        let ans: String = match t.as_slice() {
            ["CASE", ..] => header_answer(line),
            ["END"] => "END".into(),
            ["NOTE", "clk", s] => { stamp = s.parse().unwrap(); "ok".into() }
            // zone and UTC switch are properties of the harness process (see main.rs)
            ["NOTE", "tz", z] => { if std::env::var("TZ").as_deref() == Ok(*z) { "ok".into() } else { "bad-op zone of the process differs".into() } }
            ["NOTE", "utc"] => { if std::env::var("FVH_FORCE_UTC").as_deref() == Ok("1") { "ok".into() } else { "bad-op process does not force UTC".into() } }
            ["NOTE", ..] => "ok".into(),
            ["REC", lvl, m, f, l, th, msg, kvs] => {
                let o = |s: &str| if s == "_" { None } else { Some(unhexs(&s[1..]).unwrap()) };
                rec = RecP {
                    level: lvl.parse().unwrap(), module: o(m), file: o(f), line: if *l == "_" { None } else { Some(l.parse().unwrap()) },
                    thread: o(th), msg: unhexs(msg).unwrap(),
                    kvs: if *kvs == "-" { vec![] } else { kvs.split(',').map(|p| { let (k, v) = p.split_once('=').unwrap(); (unhexs(&k[1..]).unwrap(), if let Some(s) = v.strip_prefix('s') { KvP::S(unhexs(s).unwrap()) } else { KvP::N(v[1..].parse().unwrap()) }) }).collect() },
                };
                ctx.report.count("op.REC");
                "ok".into()
            }
            // the record goes through a real FileLogWriter with the format function: file bytes
            ["FMT", name, _ts, le] => {
                ctx.report.count(&format!("fmt.{name}"));
                let dir = ctx.work.join(format!("fmt-{}-{}-{li}", std::process::id(), ctx.case_no));
                let _ = std::fs::remove_dir_all(&dir);
                let mut b = FileLogWriter::builder(FileSpec::default().directory(&dir).basename("f").suppress_timestamp()).format(format_by_name(name));
                if *le == "crlf" { b = b.use_windows_line_ending(); }
                let w = b.try_build().unwrap();
                flexi_logger::verif_hooks::set_virtual_now(Some(stamp_to_local(stamp)));
                let r2 = rec.clone();
                let w = Arc::new(w);
                let w2 = w.clone();
                in_thread(rec.thread.clone(), move || with_record(&r2, |r| { w2.write(&mut DeferredNow::new(), r).unwrap(); }));
                w.shutdown();
                drop(w);
                let bytes = std::fs::read(dir.join("f.log")).unwrap_or_default();
                let _ = std::fs::remove_dir_all(&dir);
                flexi_logger::verif_hooks::set_virtual_now(None);
                nontrivial = true;
                // oracle: framing and fidelity, independent of the model
                let le_b: &[u8] = if *le == "crlf" { b"\r\n" } else { b"\n" };
                if !bytes.ends_with(le_b) {
                    ctx.report.fail(&case_id, "line-ending", &format!("line {li}: format {name}: the record does not end with the configured line ending: {:?}", String::from_utf8_lossy(&bytes)));
                } else {
                    let body = &bytes[..bytes.len() - le_b.len()];
                    if *name == "json" {
                        match serde_json::from_slice::<serde_json::Value>(body) {
                            Ok(v) => {
                                let lvl = ["", "ERROR", "WARN", "INFO", "DEBUG", "TRACE"][rec.level as usize];
                                let chk = |k: &str, want: Option<&str>| v.get(k).and_then(|x| x.as_str()).map(str::to_string) == want.map(str::to_string);
                                if body.contains(&b'\n') || !chk("text", Some(&rec.msg)) || !chk("level", Some(lvl)) || !chk("module_path", rec.module.as_deref()) || !chk("file", rec.file.as_deref())
                                    || v.get("line").and_then(serde_json::Value::as_u64) != rec.line.map(u64::from) {
                                    ctx.report.fail(&case_id, "json-fields", &format!("line {li}: JSON line {:?} does not decode to the record's values (msg {:?})", String::from_utf8_lossy(body), rec.msg));
                                }
                            }
                            Err(e) => ctx.report.fail(&case_id, "json-invalid", &format!("line {li}: not valid JSON ({e}): {:?}", String::from_utf8_lossy(body))),
                        }
                    } else if !name.starts_with("colored") && !body.ends_with(rec.msg.as_bytes()) {
                        ctx.report.fail(&case_id, "message-not-verbatim", &format!("line {li}: format {name}: output {:?} does not end with the message {:?}", String::from_utf8_lossy(body), rec.msg));
                    }
                }
                hex(&bytes)
            }
            // two records from the same thread through one FileLogWriter: a big one (message of n
            // letters B), then the current one; file bytes
            ["FMT2", name, _ts, le, n] => {
                ctx.report.count(&format!("fmt2.{name}"));
                let n: usize = n.parse().unwrap();
                let dir = ctx.work.join(format!("fmt-{}-{}-{li}", std::process::id(), ctx.case_no));
                let _ = std::fs::remove_dir_all(&dir);
                let mut b = FileLogWriter::builder(FileSpec::default().directory(&dir).basename("f").suppress_timestamp()).format(format_by_name(name));
                if *le == "crlf" { b = b.use_windows_line_ending(); }
                let w = Arc::new(b.try_build().unwrap());
                flexi_logger::verif_hooks::set_virtual_now(Some(stamp_to_local(stamp)));
                let r2 = rec.clone();
                let mut big = rec.clone();
                big.msg = "B".repeat(n);
                let w2 = w.clone();
                in_thread(rec.thread.clone(), move || {
                    with_record(&big, |r| { w2.write(&mut DeferredNow::new(), r).unwrap(); });
                    with_record(&r2, |r| { w2.write(&mut DeferredNow::new(), r).unwrap(); });
                });
                w.shutdown();
                drop(w);
                let bytes = std::fs::read(dir.join("f.log")).unwrap_or_default();
                let _ = std::fs::remove_dir_all(&dir);
                flexi_logger::verif_hooks::set_virtual_now(None);
                nontrivial = true;
                let le_b: &[u8] = if *le == "crlf" { b"\r\n" } else { b"\n" };
                // oracle: exactly two framed records, the second one ends the file and its line does
                // not contain the big message again
                if !name.starts_with("colored") && *name != "json" {
                    let tail_ok = bytes.ends_with(&[rec.msg.as_bytes(), le_b].concat());
                    let b_count = bytes.iter().filter(|c| **c == b'B').count();
                    let expect_b = n + rec.msg.bytes().filter(|c| *c == b'B').count();
                    if !tail_ok || b_count > expect_b + 64 {
                        ctx.report.fail(&case_id, "stale-buffer-content", &format!("line {li}: format {name}: after a record of {n} bytes the next record's line is not just its own format output: the file has {} bytes, {} letters B (the first message has {n})", bytes.len(), b_count));
                    }
                }
                hex(&bytes)
            }
            // one log call, two outputs (file + additional writer), the clock advances on every read
            ["OUTS", o1, o2] | ["OUTSW", o1, o2] => {
                ctx.report.count(&format!("op.{}", t[0]));
                // OUTSW: the second output is an ADDITIONAL writer (`add_writer`), reached through the
                // target `{Sec,_Default}` — another path through the logger than the primary writer's fan-out
                // (the additional writers are served BEFORE the primary writer: `OUTSW <writer> <file>`)
                let additional = t[0] == "OUTSW";
                let (o1, o2) = if additional { (o2, o1) } else { (o1, o2) };
                let p1: Vec<&str> = o1.split(':').collect();
                let p2: Vec<&str> = o2.split(':').collect();
                let dir = ctx.work.join(format!("fmt-{}-{}-{li}", std::process::id(), ctx.case_no));
                let _ = std::fs::remove_dir_all(&dir);
                let sink = Arc::new(Mutex::new(Vec::new()));
                let lg = flexi_logger::Logger::with(flexi_logger::LogSpecification::trace());
                // (an additional writer keeps the format it was built with; the primary one gets `format_for_writer`)
                let fw = Box::new(FmtWriter { fmt: Mutex::new(if additional { format_by_name(p2[0]) } else { flexi_logger::default_format }), sink: sink.clone() });
                let lg = if additional { lg.log_to_file(FileSpec::default().directory(&dir).basename("f").suppress_timestamp()).add_writer("Sec", fw) }
                    else { lg.log_to_file_and_writer(FileSpec::default().directory(&dir).basename("f").suppress_timestamp(), fw) };
                let mut lg = lg
                    .format_for_files(format_by_name(p1[0]))
                    .format_for_writer(format_by_name(p2[0]))
                    .error_channel(flexi_logger::ErrorChannel::File(errchan.clone()))
                    .panic_if_error_channel_is_broken(false);
                if p1[1] == "crlf" { lg = lg.use_windows_line_ending(); }
                let (boxed, handle) = lg.build().unwrap();
                flexi_logger::verif_hooks::set_virtual_now(Some(stamp_to_local(stamp)));
                flexi_logger::verif_hooks::set_clock_step_per_read(1_000_000);
                let r2 = rec.clone();
                in_thread(rec.thread.clone(), move || with_record_t(&r2, if additional { Some("{Sec,_Default}") } else { None }, |r| boxed.log(r)));
                flexi_logger::verif_hooks::set_clock_step_per_read(0);
                flexi_logger::verif_hooks::set_virtual_now(None);
                handle.shutdown();
                drop(handle);
                let fbytes = std::fs::read(dir.join("f.log")).unwrap_or_default();
                let wbytes = sink.lock().unwrap().clone();
                let _ = std::fs::remove_dir_all(&dir);
                nontrivial = true;
                // oracle: one record, one time stamp — with the same format function the two outputs
                // are the same text (up to the line ending), although the clock moved between them
                if p1[0] == p2[0] {
                    let strip = |b: &[u8]| { let b = b.strip_suffix(b"\n").unwrap_or(b); b.strip_suffix(b"\r").unwrap_or(b).to_vec() };
                    if strip(&fbytes) != strip(&wbytes) {
                        ctx.report.fail(&case_id, "outputs-differ", &format!("line {li}: the same record, format {}: file has {:?}, additional writer has {:?}", p1[0], String::from_utf8_lossy(&fbytes), String::from_utf8_lossy(&wbytes)));
                    }
                }
                if additional { format!("{} {}", hex(&wbytes), hex(&fbytes)) } else { format!("{} {}", hex(&fbytes), hex(&wbytes)) }
            }
            _ => format!("bad-op {line}"),
        };
        out.push(ans);
    }
    if nontrivial { ctx.report.nontrivial_case(lines); }
    if ctx.report.samples.len() < 3 { ctx.report.samples.push(lines.join(" | ")); }
    out
}

/// the same text for a process in a fixed-offset zone (`offset` seconds east), with or without
/// `DeferredNow::force_utc()`; computed without consulting the zone of the generating process
pub fn ts_text_zone(stamp: u64, plus_secs: i64, offset: i32, utc: bool) -> String {
    let k = stamp;
    let naive = chrono::NaiveDate::from_ymd_opt((k / 10_000_000_000) as i32, (k / 100_000_000 % 100) as u32, (k / 1_000_000 % 100) as u32).unwrap()
        .and_hms_opt((k / 10_000 % 100) as u32, (k / 100 % 100) as u32, (k % 100) as u32).unwrap() + chrono::Duration::seconds(plus_secs);
    let (shown, off) = if utc { (naive - chrono::Duration::seconds(i64::from(offset)), 0) } else { (naive, offset) };
    let sign = if off < 0 { '-' } else { '+' };
    format!("{} {sign}{:02}:{:02}", shown.format("%Y-%m-%d %H:%M:%S%.6f"), off.abs() / 3600, off.abs() % 3600 / 60)
}

pub fn ts_text(stamp: u64, plus_secs: i64) -> String {
    (stamp_to_local(stamp) + chrono::Duration::seconds(plus_secs)).format(TS_FMT).to_string()
}

pub fn gen_c20(tier: &str, seed: u64) -> Vec<Vec<String>> {
    let mut root = Rng::new(seed ^ 0xC20);
    let n = if tier == "thorough" { 3000 } else { 250 };
    let msgs = ["", "hello", "multi\nline\ntext", "quote \" and \\ backslash", "ctrl \u{1} \u{1f} \u{7f} \t tab", "ünï€ 日本 🦀", "{braces} {} {{", "ends with newline\n", "\r\ncrlf inside\r\n", "\u{8}\u{c}", "</script>"];
    let names = ["default", "opt", "detailed", "with_thread", "colored_default", "colored_opt", "colored_detailed", "colored_with_thread", "json"];
    let strs = ["", "m", "my::module", "src/main.rs", "weird \" path\\x", "ünï", "a b"];
    let mut cases = Vec::new();
    for k in 0..n {
        let mut r = root.fork();
        let mut c = vec![format!("CASE fmt C20 {k}")];
        let stamp = crate::props::flwgen::pack(1_700_000_000 + r.below(100_000_000) as i64);
        c.push(format!("NOTE clk {stamp}"));
        // a third of the cases in a zone east or west of Greenwich; half of those with the time
        // stamps forced to UTC (`Logger::use_utc` / `DeferredNow::force_utc`)
        let zone: Option<(&str, i32)> = if r.chance(1, 3) { Some(*r.pick(&[("<+0530>-5:30", 19_800), ("<-0330>3:30", -12_600), ("<+0545>-5:45", 20_700), ("<+14>-14", 50_400), ("<-12>12", -43_200)])) } else { None };
        let utc = zone.is_some() && r.chance(1, 2);
        if let Some((z, _)) = zone { c.push(format!("NOTE tz {z}")); }
        if utc { c.push("NOTE utc".into()); }
        let ts_text = |stamp: u64, plus: i64| match zone { Some((_, off)) => ts_text_zone(stamp, plus, off, utc), None => ts_text(stamp, plus) };
        let o = |r: &mut Rng, tag: char| if r.chance(1, 3) { "_".to_string() } else { format!("{tag}{}", hexs(r.pick_s(&strs))) };
        let m = o(&mut r, 'm');
        let f = o(&mut r, 'f');
        let th = if r.chance(1, 2) { "_".to_string() } else { format!("t{}", hexs(r.pick_s(&["worker-1", "T", "main", "ünï"]))) };
        let line = if r.chance(1, 3) { "_".to_string() } else { r.pick(&[0u64, 1, 42, 4_294_967_295]).to_string() };
        let nkv = if r.chance(1, 2) { 0 } else { r.range(1, 3) };
        let kvs = if nkv == 0 { "-".to_string() } else {
            (0..nkv).map(|_| { let key = r.pick_s(&["a", "b", "key", "z9"]); if r.chance(1, 2) { format!("k{}=s{}", hexs(key), hexs(r.pick_s(&["v", "two words", "q\"uote", "back\\slash", "tab\tnl\n", ""]))) } else { format!("k{}=n{}", hexs(key), r.pick(&[0u64, 7, 1234567])) } }).collect::<Vec<_>>().join(",")
        };
        c.push(format!("REC {} {m} {f} {line} {th} {} {kvs}", r.range(1, 5), hexs(r.pick_s(&msgs))));
        let ts = ts_text(stamp, 0);
        for _ in 0..r.range(1, 3) {
            c.push(format!("FMT {} {} {}", r.pick(&names), hexs(&ts), r.pick(&["lf", "lf", "crlf"])));
        }
        if r.chance(1, 10) {
            c.push(format!("FMT2 {} {} {} {}", r.pick(&names), hexs(&ts), r.pick(&["lf", "crlf"]), r.pick(&[300u64, 20_000, 70_000, 140_000])));
        }
        if r.chance(1, 2) {
            let le = *r.pick(&["lf", "crlf"]);
            let n1 = *r.pick(&names);
            let n2 = if r.chance(1, 3) { n1 } else { *r.pick(&names) };
            if r.chance(1, 2) {
                c.push(format!("OUTS {n1}:{le}:{} {n2}:lf:{}", hexs(&ts), hexs(&ts_text(stamp, 1))));
            } else {
                // the additional writer comes first in time, the file second; nothing but the format
                // functions reads the clock in between, so either of them would get the first reading
                c.push(format!("OUTSW {n2}:lf:{} {n1}:{le}:{}", hexs(&ts), hexs(&ts)));
            }
        }
        c.push("END".into());
        cases.push(c);
    }
    cases
}
