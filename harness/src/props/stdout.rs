//! stdout/stderr as primary output (C04, C03): a child process logs and ends; the parent
//! captures the stream.
use crate::props::header_answer;
use crate::util::{hex, tokens, unhex, Rng};
use crate::Ctx;
use flexi_logger::{LogSpecification, Logger, WriteMode};
use log::Record;

/// the reports of the reference run of the last `ERRCHAN` line (for the case as executed)
pub static ERRCHAN_REF: std::sync::Mutex<Option<String>> = std::sync::Mutex::new(None);

pub fn mode_of(m: &str) -> WriteMode {
    let p: Vec<&str> = m.split(':').collect();
    match p[0] {
        "direct" => WriteMode::Direct,
        "buf" => WriteMode::BufferDontFlushWith(p[1].parse().unwrap()),
        "async" => WriteMode::AsyncWith { pool_capa: p[1].parse().unwrap(), message_capa: p[2].parse().unwrap(), flush_interval: std::time::Duration::from_secs(0) },
        _ => panic!("mode {m}"),
    }
}

/// child: `fvh child std <mode> <out|err> <shutdown|drop|flush> <line-hex>...`
pub fn child_std(args: &[String]) {
    let mut l = Logger::with(LogSpecification::trace()).format(crate::props::flw::raw_format).write_mode(mode_of(&args[0]));
    l = if args[1] == "out" { l.log_to_stdout() } else { l.log_to_stderr() };
    let (boxed, handle) = l.build().unwrap();
    for h in &args[3..] {
        let b = unhex(h).unwrap();
        let payload = String::from_utf8(b[..b.len() - 1].to_vec()).unwrap();
        boxed.log(&Record::builder().level(log::Level::Info).target("t").args(format_args!("{}", payload)).build());
    }
    match args[2].as_str() {
        "shutdown" => handle.shutdown(),
        "flush" => handle.flush(),
        _ => drop(handle),
    }
    // the process ends right away: nothing may still be on its way
    std::process::exit(0);
}


/// child: `fvh child errchan <channel> <faults> <dir> <nrec>` — a logger that writes to a rotating
/// file in `<dir>/log`, its error channel as named; one file-system operation fails (hook) at
/// every record whose number is divisible by 3.
pub fn child_errchan(args: &[String]) {
    use flexi_logger::{Cleanup, Criterion, ErrorChannel, FileSpec, Naming};
    let dir = std::path::PathBuf::from(&args[2]);
    let chan = match args[0].as_str() {
        "stderr" => ErrorChannel::StdErr,
        "stdout" => ErrorChannel::StdOut,
        "file" => ErrorChannel::File(dir.join("err.txt")),
        "badfile" => ErrorChannel::File(dir.join("no-such-directory").join("err.txt")),
        _ => ErrorChannel::DevNull,
    };
    let kind: &'static str = match args[1].as_str() { "write" => "write", "rename" => "rename", "open" => "open", _ => "none" };
    let (boxed, handle) = Logger::with(LogSpecification::trace())
        .format(crate::props::flw::raw_format)
        .log_to_file(FileSpec::default().directory(dir.join("log")).basename("app"))
        .rotate(Criterion::Size(20), Naming::Numbers, Cleanup::Never)
        .error_channel(chan)
        .panic_if_error_channel_is_broken(false)
        .build().unwrap();
    let n: usize = args[3].parse().unwrap();
    let armed = std::sync::Arc::new(std::sync::atomic::AtomicBool::new(false));
    let a2 = armed.clone();
    flexi_logger::verif_hooks::set_fault_handler(Some(std::sync::Arc::new(move |k, _p| {
        if k == kind && a2.swap(false, std::sync::atomic::Ordering::SeqCst) { Some(std::io::Error::new(std::io::ErrorKind::PermissionDenied, "injected fault")) } else { None }
    })));
    for i in 0..n {
        armed.store(i % 3 == 0, std::sync::atomic::Ordering::SeqCst);
        boxed.log(&Record::builder().level(log::Level::Info).target("t").args(format_args!("record number {i} of the error-channel run")).build());
    }
    armed.store(false, std::sync::atomic::Ordering::SeqCst);
    handle.shutdown();
    std::process::exit(0);
}


/// `<pri>` then the header fields of the layout, then the message (which may itself contain blanks)
fn parse_syslog(hdr: &str, got: &str) -> Option<(u64, String)> {
    let rest = got.strip_prefix('<')?;
    let (p, rest) = rest.split_once('>')?;
    let pri: u64 = p.parse().ok()?;
    let m = if hdr == "5424" {
        let rest = rest.strip_prefix("1 ")?;
        let mut it = rest.splitn(6, ' ');
        let (ts, _host, _app, pid, msgid) = (it.next()?, it.next()?, it.next()?, it.next()?, it.next()?);
        // RFC 3339 time stamp: `YYYY-MM-DDThh:mm:ss…`
        if msgid != "fvhid" || pid.parse::<u32>().is_err() || ts.len() < 20 || ts.as_bytes()[10] != b'T' { return None; }
        it.next()?.strip_prefix("- ")?.to_string()
    } else {
        // `Mmm dd hh:mm:ss tag[pid]: msg`
        let ts = rest.get(..15)?;
        if !ts.as_bytes()[0].is_ascii_uppercase() || ts.as_bytes()[3] != b' ' || ts.as_bytes()[9] != b':' || ts.as_bytes()[12] != b':' { return None; }
        let rest = rest.get(16..)?;
        let (tagpid, m) = rest.split_once("]: ")?;
        let (_tag, pid) = tagpid.split_once('[')?;
        if pid.parse::<u32>().is_err() { return None; }
        m.to_string()
    };
    Some((pri, m))
}

/// the reports in a captured stream / file: the error codes, and the line about an unopenable file
fn report_kinds(text: &[u8]) -> Vec<String> {
    String::from_utf8_lossy(text).lines().filter_map(|l| {
        if let Some(rest) = l.strip_prefix("[flexi_logger][ERRCODE::") { rest.split(']').next().map(str::to_string) }
        else if l.starts_with("Can't open error output file") { Some("cantopen".to_string()) }
        else { None }
    }).collect()
}
fn run_errchan(work: &std::path::Path, ch: &str, fault: &str, n: &str, tag: &str) -> (Vec<String>, Vec<String>, Vec<String>) {
    let dir = work.join(format!("errchan-{}-{tag}", std::process::id()));
    let _ = std::fs::remove_dir_all(&dir);
    std::fs::create_dir_all(dir.join("log")).unwrap();
    let exe = std::env::current_exe().unwrap();
    let o = std::process::Command::new(exe).arg("child").arg("errchan").arg(ch).arg(fault).arg(&dir).arg(n).output().expect("child");
    let file = std::fs::read(dir.join("err.txt")).unwrap_or_default();
    let r = (report_kinds(&o.stderr), report_kinds(&o.stdout), report_kinds(&file));
    let _ = std::fs::remove_dir_all(&dir);
    r
}

pub fn execute(ctx: &mut Ctx, lines: &[String]) -> Vec<String> {
    let case_id = tokens(&lines[0])[2..].join(" ");
    let mut out = Vec::new();
    for (li, line) in lines.iter().enumerate() {
        let t = tokens(line);
        let ans = match t.as_slice() {
            ["CASE", ..] => header_answer(line),
            ["END"] => "END".into(),
            ["STDRUN", mode, target, how, ls @ ..] => {
                let exe = std::env::current_exe().unwrap();
                let o = std::process::Command::new(exe).arg("child").arg("std").arg(mode).arg(target).arg(how).args(ls).output().expect("child");
                let got = if *target == "out" { o.stdout } else { o.stderr };
                let want: Vec<u8> = ls.iter().flat_map(|h| unhex(h).unwrap()).collect();
                ctx.report.count(&format!("std.{}.{}.{how}", mode.split(':').next().unwrap(), target));
                ctx.report.nontrivial_case(lines);
                if got != want {
                    ctx.report.fail(&case_id, "std-stream-incomplete", &format!("line {li}: mode {mode}, {target}, ended by {how}: the child logged {} bytes in {} records, the stream holds {} bytes: {:?}", want.len(), ls.len(), got.len(), String::from_utf8_lossy(&got)));
                }
                hex(&got)
            }
            // C13/C20: one record through a real SyslogWriter (UDP loopback): PRI value, header layout, message
            ["SYSLOGLINE", hdr, fac, lvl, msg] => {
                use flexi_logger::writers::{LogWriter, SyslogConnection, SyslogFacility as F, SyslogLineHeader, SyslogWriter};
                ctx.report.count(&format!("op.SYSLOGLINE.{hdr}"));
                ctx.report.nontrivial_case(lines);
                let facs = [F::Kernel, F::UserLevel, F::MailSystem, F::SystemDaemons, F::Authorization, F::SyslogD, F::LinePrinter, F::News, F::Uucp, F::Clock, F::Authorization2, F::Ftp,
                    F::Ntp, F::LogAudit, F::LogAlert, F::Clock2, F::LocalUse0, F::LocalUse1, F::LocalUse2, F::LocalUse3, F::LocalUse4, F::LocalUse5, F::LocalUse6, F::LocalUse7];
                let fac: usize = fac.parse().unwrap();
                let lvl: usize = lvl.parse().unwrap();
                let text = crate::util::unhexs(msg).unwrap();
                if *hdr == "both" {
                    // two syslog writers with DIFFERENT header layouts behind one logger, one record addressed
                    // to both (`{A,B}`, then `{B,A}`): each line in its own layout, same PRI, same message
                    let mk = |header: SyslogLineHeader| {
                        let server = std::net::UdpSocket::bind("127.0.0.1:0").unwrap();
                        server.set_read_timeout(Some(std::time::Duration::from_secs(5))).unwrap();
                        let conn = SyslogConnection::try_udp("127.0.0.1:0".to_string(), server.local_addr().unwrap().to_string()).unwrap();
                        let w = SyslogWriter::builder(conn, header, facs[fac]).max_log_level(log::LevelFilter::Trace).format(crate::props::flw::raw_format).build().unwrap();
                        (server, w)
                    };
                    let (sa, wa) = mk(SyslogLineHeader::Rfc5424("fvhid".to_owned()));
                    let (sb, wb) = mk(SyslogLineHeader::Rfc3164);
                    let gate = log::max_level();
                    let (lg, hd) = Logger::with(LogSpecification::trace()).do_not_log().add_writer("A", wa).add_writer("B", wb).build().unwrap();
                    let level = [log::Level::Error, log::Level::Warn, log::Level::Info, log::Level::Debug, log::Level::Trace][lvl - 1];
                    let mut answer: Option<String> = None;
                    for tg in ["{A,B}", "{B,A}"] {
                        lg.log(&Record::builder().level(level).target(tg).args(format_args!("{}", text)).build());
                        hd.flush();
                        for (h2, sock) in [("5424", &sa), ("3164", &sb)] {
                            let mut buf = vec![0u8; 65536];
                            let got = match sock.recv(&mut buf) { Ok(n) => String::from_utf8_lossy(&buf[..n]).to_string(), Err(_) => String::new() };
                            match parse_syslog(h2, &got) {
                                Some((pri, m)) => {
                                    if m != text { ctx.report.fail(&case_id, "syslog-message-not-verbatim", &format!("line {li}: target {tg}, writer {h2}: logged {text:?}, the line {got:?} carries {m:?}")); }
                                    let a = format!("pri={pri} msg={}", crate::util::hexs(&m));
                                    if answer.as_ref().is_some_and(|x| *x != a) { ctx.report.fail(&case_id, "syslog-lines-differ", &format!("line {li}: target {tg}, writer {h2}: {a} vs {answer:?}")); }
                                    answer.get_or_insert(a);
                                }
                                None => { ctx.report.fail(&case_id, "syslog-line-malformed", &format!("line {li}: target {tg}: the writer with the RFC {h2} header sent {got:?}")); answer = Some(format!("malformed {}", crate::util::hexs(&got))); }
                            }
                        }
                    }
                    hd.shutdown();
                    log::set_max_level(gate);
                    out.push(answer.unwrap_or_else(|| "nothing".into()));
                    continue;
                }
                let server = std::net::UdpSocket::bind("127.0.0.1:0").unwrap();
                server.set_read_timeout(Some(std::time::Duration::from_secs(5))).unwrap();
                let conn = SyslogConnection::try_udp("127.0.0.1:0".to_string(), server.local_addr().unwrap().to_string()).unwrap();
                let header = if *hdr == "5424" { SyslogLineHeader::Rfc5424("fvhid".to_owned()) } else { SyslogLineHeader::Rfc3164 };
                let w = SyslogWriter::builder(conn, header, facs[fac]).max_log_level(log::LevelFilter::Trace).format(crate::props::flw::raw_format).build().unwrap();
                let level = [log::Level::Error, log::Level::Warn, log::Level::Info, log::Level::Debug, log::Level::Trace][lvl - 1];
                let _ = LogWriter::write(&*w, &mut flexi_logger::DeferredNow::new(), &Record::builder().level(level).target("t").args(format_args!("{}", text)).build());
                let _ = LogWriter::flush(&*w);
                let mut buf = vec![0u8; 65536];
                let got = match server.recv(&mut buf) { Ok(n) => String::from_utf8_lossy(&buf[..n]).to_string(), Err(_) => String::new() };
                let parsed = parse_syslog(hdr, &got);
                match parsed {
                    Some((pri, m)) => {
                        if m != text {
                            ctx.report.fail(&case_id, "syslog-message-not-verbatim", &format!("line {li}: logged {text:?}, the syslog line {got:?} carries {m:?}"));
                        }
                        format!("pri={pri} msg={}", crate::util::hexs(&m))
                    }
                    None => {
                        ctx.report.fail(&case_id, "syslog-line-malformed", &format!("line {li}: header {hdr}, facility {fac}, level {lvl}, message {text:?}: received {got:?}"));
                        format!("malformed {}", crate::util::hexs(&got))
                    }
                }
            }
            // C19: the reports of a run with failing operations arrive on the configured error channel.
            // Reference = the same run with an openable error file; answered in the form of the
            // rewritten line `ERRCHANOBS <channel> <reports of the reference run>`
            ["ERRCHAN", ch, fault, n] | ["ERRCHANOBS", ch, fault, n, ..] => {
                let (_, _, reference) = run_errchan(&ctx.work, "file", fault, n, "ref");
                let (e, o, f) = run_errchan(&ctx.work, ch, fault, n, "run");
                ctx.report.count(&format!("errchan.{ch}.{fault}"));
                ctx.report.nontrivial_case(lines);
                let sh = |l: &Vec<String>| if l.is_empty() { "-".to_string() } else { l.join(",") };
                if *fault != "none" && reference.is_empty() {
                    ctx.report.fail(&case_id, "failure-not-reported", &format!("line {li}: {n} records with a failing `{fault}` at every third one, error channel = file: nothing was reported"));
                }
                let all: Vec<&String> = e.iter().chain(o.iter()).chain(f.iter()).filter(|k| k.as_str() != "cantopen").collect();
                if *ch != "devnull" && all.len() != reference.len() {
                    ctx.report.fail(&case_id, "report-lost-on-channel", &format!("line {li}: error channel `{ch}`: the reference run (error file) reported {:?}, this run stderr {:?} stdout {:?} file {:?}", reference, e, o, f));
                }
                *ERRCHAN_REF.lock().unwrap() = Some(sh(&reference));
                format!("err={}|out={}|file={}", sh(&e), sh(&o), sh(&f))
            }
            ["RECURSE", mode, target, ..] if t.len() <= 5 => {
                let depth: u32 = t.get(3).and_then(|d| d.parse().ok()).unwrap_or(1);
                let crlf = t.get(4) == Some(&"crlf");
                let (finished, data) = crate::props::robust::run_recurse(&ctx.work, mode, target, 4, depth, crlf);
                ctx.report.count(&format!("recurse.{}.{target}", mode.split(':').next().unwrap()));
                ctx.report.nontrivial_case(lines);
                if !finished {
                    // reproduce once with a doubled bound before calling it a hang
                    let (again, _) = crate::props::robust::run_recurse(&ctx.work, mode, target, 8, depth, crlf);
                    if !again {
                        ctx.report.fail(&case_id, &format!("recursion-hangs-{mode}-{target}"), &format!("line {li}: a log call from within Display (mode {mode}, output {target}) did not return within 8 s (twice)"));
                        out.push("hang".into());
                        continue;
                    }
                }
                let le = if crlf { "\r\n" } else { "\n" };
                let mut want = format!("inner1{le}").into_bytes();
                for j in 2..=depth { want.extend(format!("inner{j} x{}{le}", j - 1).bytes()); }
                want.extend(format!("outer x{depth}{le}plain{le}").bytes());
                if finished && data != want {
                    ctx.report.fail(&case_id, "recursion-output", &format!("line {li}: recursive logging (mode {mode}, output {target}) produced {:?}", String::from_utf8_lossy(&data)));
                }
                hex(&data)
            }
            // C20: the in-memory log target frames every record as format output + one line ending
            ["BUFFRAME", max, msgs @ ..] => {
                ctx.report.count("op.BUFFRAME");
                ctx.report.nontrivial_case(lines);
                let exe = std::env::current_exe().unwrap();
                let o = std::process::Command::new(exe).arg("child").arg("bufframe").arg(max).args(msgs).output().expect("child");
                let got = String::from_utf8_lossy(&o.stdout).trim().to_string();
                let want: Vec<u8> = msgs.iter().flat_map(|h| { let mut b = unhex(h).unwrap(); b.push(b'\n'); b }).collect();
                let got = if got.is_empty() { "-".to_string() } else { got };
                if unhex(&got).unwrap_or_default() != want {
                    ctx.report.fail(&case_id, "buffer-framing", &format!("line {li}: the snapshot of the in-memory log target is {:?}, the records framed with one line ending each are {:?}", String::from_utf8_lossy(&unhex(&got).unwrap_or_default()), String::from_utf8_lossy(&want)));
                }
                got
            }
            ["BUFLOG", max, lens] => {
                ctx.report.count("op.BUFLOG");
                ctx.report.nontrivial_case(lines);
                // (reproduce once with a doubled bound before calling it a hang)
                match crate::props::robust::run_buflog(max, lens, 5).or_else(|| crate::props::robust::run_buflog(max, lens, 10)) {
                    Some(held) => held,
                    None => {
                        ctx.report.fail(&case_id, "buffer-log-hangs", &format!("line {li}: logging records of lengths {lens} to a memory buffer of {max} bytes did not end within 10 s (twice)"));
                        "hang".into()
                    }
                }
            }
            _ => format!("bad-op {line}"),
        };
        out.push(ans);
    }
    if ctx.report.samples.len() < 3 { ctx.report.samples.push(lines.join(" | ")); }
    out
}

pub fn gen_std(prop: &str, tier: &str, seed: u64) -> Vec<Vec<String>> {
    let mut root = Rng::new(seed ^ 0x57D);
    let n = if tier == "thorough" { 400 } else { 40 };
    let mut cases = Vec::new();
    for k in 0..n {
        let mut r = root.fork();
        let mode = match r.below(4) { 0 => "direct".to_string(), 1 => format!("buf:{}", r.pick(&[16u64, 300, 8192])), _ => format!("async:{}:{}", r.pick(&[1u64, 5, 50]), r.pick(&[0u64, 20, 200])) };
        let target = r.pick_s(&["out", "err"]);
        // flush() guarantees delivery in the synchronous modes only
        let how = if mode.starts_with("async") { r.pick_s(&["shutdown", "drop"]) } else { r.pick_s(&["shutdown", "drop", "flush"]) };
        let nl = r.range(1, if tier == "thorough" { 400 } else { 120 });
        let ls: Vec<String> = (0..nl).map(|i| hex(&crate::props::flwgen::record(i, *r.pick(&[2u64, 10, 40, 200])))).collect();
        cases.push(vec![format!("CASE std {prop} s{k}"), format!("STDRUN {mode} {target} {how} {}", ls.join(" ")), "END".into()]);
    }
    cases
}

/// C19: every `ErrorChannel` variant x which operation fails
pub fn gen_errchan(tier: &str, seed: u64) -> Vec<Vec<String>> {
    let mut r = Rng::new(seed ^ 0xE44C);
    let mut cases = Vec::new();
    let n = if tier == "thorough" { 60 } else { 15 };
    for k in 0..n {
        let ch = ["stderr", "stdout", "file", "badfile", "devnull"][(k % 5) as usize];
        let fault = *r.pick(&["write", "rename", "open", "write", "none"]);
        cases.push(vec![format!("CASE std C19 e{k}"), format!("ERRCHAN {ch} {fault} {}", r.range(4, 30)), "END".into()]);
    }
    cases
}

/// C13: lines of the syslog writer — every facility x level x both header layouts, odd messages
pub fn gen_syslog(tier: &str, seed: u64) -> Vec<Vec<String>> {
    let mut r = Rng::new(seed ^ 0x5951);
    let mut cases = Vec::new();
    for k in 0..(if tier == "thorough" { 240 } else { 48 }) {
        let fac = k % 24;
        let lvl = r.range(1, 5);
        let hdr = *r.pick(&["5424", "3164", "both"]);
        let msg = r.pick_s(&["hello", "two words", "x", "with ]: inside", "- dash first", "ünï 日本", "a=b [c] <d>", "1 2 3 4 5 6 7"]);
        cases.push(vec![format!("CASE std C13 y{k}"), format!("SYSLOGLINE {hdr} {fac} {lvl} {}", crate::util::hexs(msg)), "END".into()]);
    }
    cases
}
