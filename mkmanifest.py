#!/usr/bin/env python3
"""Regenerates MANIFEST.json from checkcfg.py (single source of truth)."""
import json, os, sys
ROOT = os.path.dirname(os.path.abspath(__file__))
sys.path.insert(0, ROOT)
from checkcfg import PROPS
PENDING = {}
ALL = [f"C{i:02d}" for i in range(1, 21)]
hooks_commits = os.popen("git -C /repo log --format=%h --grep='^verif hooks'").read().split()
checks = []
for p in ALL:
    if p not in PROPS:
        continue
    c = PROPS[p]
    checks.append({
        "property_id": p,
        "quick_cmd": f"./check {p} --tier quick",
        "thorough_cmd": f"./check {p} --tier thorough",
        "evidence_file": f"/verif/evidence/{p}.json",
        "replay_cmd_template": f"./check {p} --replay {{path}}",
        "engine": "lean-proof+correspondence",
        "level_claimed": {
            "category": "proof",
            "text": c["level_text"],
            "design_ref": c.get("design_ref", "DESIGN.md §5 " + p),
        },
        "level_note": c["level_note"],
        "technique": c.get("technique", "Lean 4 theorems about an executable model (induction/invariant/refinement), model tied to the code by a seeded differential correspondence check with property oracle"),
    })
m = {
    "version": 1,
    "setup_cmd": "./setup.sh",
    "hooks": {
        "guard": "flexi_logger_verif",
        "enable": "RUSTFLAGS=--cfg flexi_logger_verif (set in /verif/harness/.cargo/config.toml; the harness depends on /repo by path, all optional features on)",
        "baseline_off_cmd": "cd /repo && cargo test --workspace --no-fail-fast --offline",
        "source_commits": hooks_commits,
        "add_only": True,
    },
    "engines": [{
        "name": "lean-proof+correspondence",
        "path": "/verif/check",
        "serves_properties": [c["property_id"] for c in checks],
        "kind_free_text": "Lean 4.33 kernel-checked theorems over hand-written executable models (lean/FlexiVerif), axiom audit per theorem; "
                          "Rust harness (harness/) runs the real crate built from /repo with hooks on, Lean lean_exe driver runs the model on the same "
                          "operation lines, answers are diffed; property oracles on the implementation locate failing inputs",
    }],
    "checks": checks,
    "notes": "Every check rebuilds the Lean obligations and the harness (path dependency on /repo's working tree). Known genuine defects: known_findings.json. See DESIGN.md.",
    "not_applicable": [{"property_id": p, "reason": PENDING.get(p, "check under construction in this session; not claimed yet (not a statement that the technique cannot apply)")}
                       for p in ALL if p not in PROPS],
}

json.dump(m, open(os.path.join(ROOT, "MANIFEST.json"), "w"), indent=1)
print("checks:", [c["property_id"] for c in checks])
